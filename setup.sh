#!/usr/bin/env bash
# Offline install of the harness's third-party dependencies into /verif/.deps
# (git-ignored).  Idempotent; serialised with flock so that many checks started
# at once after a fresh restore do not race on "pip --target".
set -euo pipefail
HERE="$(cd "$(dirname "${BASH_SOURCE[0]}")" && pwd)"
cd "$HERE"
PY="${VERIF_PYTHON:-/venv/bin/python}"
WHEELS="${VERIF_WHEELS:-/opt/veriftools/wheels}"
STAMP=".deps/.ok"
exec 9>"$HERE/.deps.lock"
flock 9
if [ -f "$STAMP" ] && "$PY" -B -c "import sys; sys.path.insert(0,'$HERE/.deps'); import jsonschema, icontract, numpy, atheris" 2>/dev/null; then
  exit 0
fi
rm -rf .deps
mkdir -p .deps
export PIP_NO_INDEX=1 PIP_DISABLE_PIP_VERSION_CHECK=1
"$PY" -m pip install --quiet --no-index --find-links "$WHEELS" --target .deps \
    jsonschema icontract numpy atheris >/dev/null 2>.deps/pip.err || {
  echo "setup.sh: pip failed:" >&2; cat .deps/pip.err >&2; exit 3; }
"$PY" -B -c "import sys; sys.path.insert(0,'$HERE/.deps'); import jsonschema, icontract, numpy, atheris"
touch "$STAMP"
mkdir -p evidence replays
echo "setup.sh: dependencies installed in $HERE/.deps"
