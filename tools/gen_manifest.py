#!/usr/bin/env python3
"""Regenerates /verif/MANIFEST.json from the table below.  A property is claimed when
vmon/monitors/<ID>.py exists; otherwise it is listed under not_applicable with the
reason 'not built yet' (temporary, while the framework is being built)."""
import json
import os

HERE = os.path.dirname(os.path.dirname(os.path.abspath(__file__)))
PINNED = ("cd /repo && /venv/bin/python -m pytest -ra -q -p no:cacheprovider --timeout=900 "
          "--continue-on-collection-errors")

CHECKS = {
    "C01": dict(
        technique="runtime reference-model monitor (exact-Fraction v3 model) over an exhaustive quotient sweep",
        text="Every constructed v3 object is observed at the API boundary and its three scores compared with an independent "
             "exact-arithmetic evaluation of the FIRST equations; thorough drives the real constructor through the complete "
             "finite quotient the property names (7,236,864 constructions) plus 200k random spellings, quick through all "
             "5,184 base and 5,184 modified assignments with sampled remaining metrics. Held = no disagreement on the "
             "executions produced; evidence lists monitor evaluation counts and, per named deviant model (other rounding, "
             "swapped 3.0/3.1 formula, PR under the other scope, no 0.915 cap ...), how many cases would have exposed it.",
        note="Trusts spec/ref3.py (self-checked every run against 5,215 pinned official vectors), CPython fractions/decimal. "
             "Independence from spelling is sampled here (exhaustive part uses one spelling) and is C05/C06's subject.",
        ref="3 C01"),
    "C02": dict(
        technique="runtime reference-model monitor (exact-Fraction v4 model, first-principles EQ levels) over a stratified / "
                  "exhaustive sweep",
        text="Every constructed v4 object's base_score/scores() is compared with an independent exact evaluation of the "
             "macrovector/interpolation algorithm (EQ predicates typed from the specification, highest-severity vectors and "
             "depths derived by enumerating each EQ level, pinned 270-entry lookup table). Quick exercises every one of the "
             "270 macrovectors on every run (all highest-severity vectors, lowest member, random members) plus random "
             "spellings; thorough constructs all 15,116,544 effective assignments. Evidence reports macrovectors exercised, "
             "exact ties seen, and per deviant model the number of discriminating cases.",
        note="Trusts the pinned lookup table (sha256 recorded, monotone, 1,694 official vectors reproduce) and spec/ref4.py. "
             "A run that exercised fewer than 270 macrovectors is inconclusive.",
        ref="3 C02"),
    "C03": dict(
        technique="runtime reference-model monitor (exact-Fraction v2 model) over an exhaustive quotient sweep",
        text="Every constructed v2 object's scores() (numbers and None-ness, both directions) is compared with an exact "
             "evaluation of the v2 guide equations; quick covers all 729 base x all 49 temporal cases plus sampled "
             "environmental cases and definedness probes; thorough all 19,325,061 (729 x 49 x 541) cases. Negative exact "
             "ties of intermediate values, which the guide leaves undefined, are evaluated under both readings and counted.",
        note="Trusts spec/ref2.py (self-checked each run against 758 pinned official vectors incl. all 729 base vectors).",
        ref="3 C03"),
    "C04": dict(
        technique="runtime differential monitor: constructor outcome vs. an independent grammar recogniser over complete "
                  "single-edit neighbourhoods",
        text="Every generated string is fed to all three real constructors; acceptance must equal the verdict of an "
             "independent 25-line recogniser over own grammar tables, the raised exception must be the version's malformed / "
             "mandatory class, and nothing outside the CVSSError hierarchy may escape (the hierarchy itself is asserted). "
             "Quick: 120 valid seeds x their complete single-edit neighbourhood over a 77-symbol hostile alphabet "
             "(~4M executions) + ~90 field-level operators + junk + 100k-character strings + 4 coverage-guided atheris/libFuzzer "
             "sessions (cvss imported under instrumentation, grammar dictionary, same oracle); thorough: 3,600 seeds, double "
             "edits, 16 x 1.5M fuzzing executions.",
        note="Strings are unbounded: complete only for the 1-edit ball around the sampled seeds and the listed field "
             "operators. str inputs only. Trusts spec/tables.py (cross-checked against the official schema patterns/enums).",
        ref="3 C04"),
    "C05": dict(
        technique="trace monitor (functional dependency of the full observation record on the assignment) over permutation / "
                  "Not-Defined spelling workloads",
        text="For each sampled assignment the representative spelling's record (scores, ratings, clean vector with/without "
             "prefix, RH vector, sub-vectors) is compared with the record of every other spelling: reversed, every rotation, "
             "each metric moved first and last, shuffles, and Not Defined written for none / all / each optional metric alone "
             "/ random subsets; equality both ways and hash included. A run in which some optional metric was never toggled "
             "alone is inconclusive.",
        note="n! permutations are sampled; position sensitivity of each metric at both ends and every single ND toggle are "
             "covered for every sampled assignment.",
        ref="3 C05"),
    "C06": dict(
        technique="metamorphic runtime monitor (score equality under the five substitution clauses)",
        text="For each sampled vector every applicable transform of clauses (a)-(e) is applied singly, all together and in "
             "random subsets, both vectors are constructed by the real library and the in-scope score slots compared. A run "
             "in which a clause never touched one of its eligible metrics is inconclusive.",
        note="Equivalents of Not Defined as listed in the property. v2: a slot is compared when defined before the transform.",
        ref="3 C06"),
    "C07": dict(
        technique="postcondition on clean_vector() + ordering-consistency trace monitor + equality/hash pair oracle",
        text="Structural postcondition on every emitted clean vector (prefix, exactly the defined metrics once each); a trace "
             "monitor over all emitted vectors records every ordered metric pair and fires if both orders are ever seen (all "
             "818 pairs observed per run); re-parse idempotence; a==b compared with the canonical-key oracle on same-spelling, "
             "one-metric-difference (every metric), ND-vs-absent, 3.0-vs-3.1, cross-version and random pairs; hash/set "
             "behaviour; comparisons with 12 foreign values must be False without raising; every pair is also compared with "
             "one operand an instance of a trivial user subclass (both operand orders, !=, hash).",
        note="'One fixed order' is judged as consistency of the observed order, not against a particular order (C08 pins it).",
        ref="3 C07"),
    "C08": dict(
        technique="postcondition on every emitted vector string: own-parser acceptance + official schema pattern",
        text="Every string emitted by clean_vector(), rh_vector() and ask_interactively() is fed back to the library's own "
             "constructor and matched against the vectorString pattern of the pinned FIRST schema. Inputs: no/all/each single/"
             "EVERY PAIR of optional metrics defined x all value combinations (a mis-ordered output always shows a mis-ordered "
             "pair) + random subsets, in random input order; interactive scripts for all versions x {mandatory, all}.",
        note="Trusts the pinned schema patterns. Found and fixed F2 (v4 order).",
        ref="3 C08"),
    "C09": dict(
        technique="object invariant monitor (score well-formedness, own rating scale, agreement of all rating outlets)",
        text="Invariant checked on every constructed object: scores exactly floats with one decimal in [0,10] (or None only "
             "for an undefined v2 group, both directions), ratings equal to an independent implementation of the official "
             "scales, and severities()/CVSS4.severity/JSON *Severity/RH score text agree. Workloads are score-targeted; the "
             "evidence lists distinct scores and band edges observed per version and slot, and a run that missed a reachable "
             "band edge is inconclusive. Thorough adds the complete v2 and v4 quotients.",
        note="Reachable band edges were established by exhaustive sweeps (v2 base never scores 3.9; v3 never 0.1).",
        ref="3 C09"),
    "C10": dict(
        technique="postcondition on as_json(): jsonschema validation against the pinned official schemas",
        text="as_json() under all four (sort, minimal) pairs is JSON round-tripped and validated (Draft-04/07, exact-decimal "
             "multipleOf) against the pinned FIRST schema of the vector's version; each-choice over every (metric, value), "
             "0.0-score groups, random vectors in official and random order. Each error is reduced to a mechanism key; two "
             "genuine v4 defects remain open as known findings (title-case baseSeverity pinned by the repository's tests; "
             "echoed out-of-order vectorString, required by C11), three were fixed.",
        note="Known findings carry confirmation predicates so neighbouring defects (wrong band, malformed vector) still fire.",
        ref="3 C10"),
    "C11": dict(
        technique="postcondition on as_json(): decode-and-compare against an independent name table; sort/minimal relations",
        text="For every sampled vector all four as_json() results are obtained; vectorString/version identify the input, "
             "score and severity fields equal the scores and own-scale ratings, every metric field decodes through an "
             "independent name table to the metric's effective value, sort=True only reorders (ascending), minimal=True only "
             "removes whole undefined temporal/environmental groups. A run that never decoded some (metric, value) is "
             "inconclusive. Found and fixed F3 (v2 minimal dropped groups scoring 0.0).",
        note="Metric fields are located under the schema key or the key in use at the pinned commit; unknown extra keys are "
             "ignored.",
        ref="3 C11"),
    "C12": dict(
        technique="runtime differential monitor: from_rh_vector outcome vs. sequential acceptance model; round-trip relation",
        text="rh_vector() is compared with '%.1f' % base + '/' + clean_vector() and round-tripped through from_rh_vector; "
             "from_rh_vector is driven with, per sampled vector, its own score, all 101 representable scores, the other "
             "slots' scores, a dozen float() spellings that must be accepted, near values (b+1e-15, b+0.05 ...), nan/inf, "
             "non-numbers, missing separators, and field-level mutant / other-version vector parts behind good, wrong and "
             "non-numeric heads; each outcome (accept / exact exception class) must be one the model allows.",
        note="'Parses as a number' = Python float(); the computed base score is the library's (C01-C03). Where head and "
             "vector part are both faulty either applicable error is accepted.",
        ref="3 C12"),
    "C13": dict(
        technique="postcondition on parse_cvss_from_text(): totality, soundness, completeness against an independent scanner, "
                  "uniqueness",
        text="Texts are assembled from valid v2/v3/v4 vectors (incl. the 26-character minimum), one-edit near-misses, "
             "content-invalid vectors, repeats and re-spelled repeats, glue characters, fragments, non-ASCII, plus "
             "megabyte/degenerate texts, plus coverage-guided atheris/libFuzzer sessions with the same oracle. An independent scanner implementing the property's sentence literally lists the "
             "delimited valid vectors that must be represented; each result must come from a substring that the independent "
             "recogniser accepts for the result's class; results pairwise unequal.",
        note="Supplied string of a result observed via as_json()['vectorString']; list order never compared.",
        ref="3 C13"),
    "C15": dict(
        technique="postcondition on temporal_vector()/environmental_vector(): structure, values, score preservation",
        text="Both sub-vectors of each sampled v2/v3 object are parsed and compared with the specification group order and "
             "the expected value of every metric (stated / ND / X / inherited base value); the vector re-assembled from base "
             "metrics + both sub-vectors is constructed and must score identically (incl. None-ness). Each-choice over all "
             "optional values, all pairs inside the environmental group, random; a run that never observed some "
             "(metric, value) is inconclusive.",
        note="Group orders typed from the specifications.",
        ref="3 C15"),
    "C16": dict(
        technique="trace monitor of the stdin/stdout dialogue against a sequential model (order taken from a witness)",
        text="ask_interactively is driven through replaced sys.stdin/sys.stdout for all 4 versions x {mandatory, all}: for "
             "EVERY (metric, value) a script selecting it in as-is/lower/upper/mixed case, plus junk, empty answers on "
             "mandatory and optional metrics, answers legal only for another metric, padded answers, truncation at every "
             "index. The (returned fields, number of reads) pair or the EOFError must be an outcome of the independent "
             "dialogue model; the class must accept the result. Evidence states how many (metric, value) pairs were "
             "actually selected (all 420 across modes). Found and fixed F1 (v4 U values unselectable).",
        note="Question order is not fixed by the property: witnessed by the returned vector / a probing run. Padded answers: "
             "both behaviours allowed.",
        ref="3 C16"),
    "C14": dict(
        technique="relational runtime monitor over severity lines; thorough = offline numpy checker over recorded score tables",
        text="Scores observed while one metric runs through its severity order with all else fixed must be non-increasing. "
             "Quick: ~200k lines incl. lines through every metric from members of every v4 macrovector; thorough records the "
             "complete score tables from the real constructor (v4 15.1M points, v3 13.9M, v2 35k) and checks every one-step "
             "pair along every axis. Independent of the reference models and of the pinned lookup table.",
        note="Severity orders typed from the specifications; v3.0 environmental exempt for C/I/A, MC/MI/MA, CR/IR/AR as the "
             "property states (the check counts and reports the exempt non-monotone pairs).",
        ref="3 C14"),
    "C17": dict(
        technique="runtime monitor of the CLI process boundary (exit status, stdout, stderr) against API values and the dialogue "
                  "model",
        text="cvss_calculator is run as real subprocesses (400/6,400 command lines) and in-process via main() with patched "
             "argv/stdio (21k/320k): all 8 version-flag combinations x option subsets x vectors valid for the flagged version, "
             "valid for another version, field-level mutants, junk; interactive scripts incl. end of input at every prompt "
             "index. Judged: exit 0 and no traceback; output explained by one of the flagged versions (default 3.1) -- score "
             "lines with ratings, cleaned and RH vectors equal to the API values, -j document equal to sorted minimal "
             "as_json() with ascending keys, error message equal to the library's; interactive result equal to the C16 "
             "model's; a dispatch to a non-flagged version is diagnosed as such.",
        note="Several version flags: any flagged version accepted. -v '' and the literal value '--' are argparse artefacts "
             "(interactive mode / dropped) and judged / avoided accordingly. Runs under /venv's interpreter (C20 covers others).",
        ref="3 C17"),
    "C18": dict(
        technique="sequence monitor over accessor calls on one instance (all ordered pairs + random sequences with dictionary "
                  "mutation) against fresh-object baselines",
        text="For every sampled vector: every accessor variant on a fresh object (baseline); EVERY ordered pair (A,B) of the "
             "13-15 variants on a fresh object (an interference A->B shows on that pair); random sequences of 5-40 calls with "
             "clear/overwrite/insert/delete mutations of returned as_json() dictionaries and constructions of other objects "
             "interleaved; every result must equal (value and type; key order for sort=True) the fresh-object result. "
             "The public per-instance state of the pinned commit (metrics, original_metrics, *_score, sub-scores) is read on "
             "a fresh object and after every accessor pair, in rotated reading orders, and must not change; private "
             "attribute changes are counted, not judged.",
        note="Sequences are unbounded: pairs are complete per sampled vector, longer interference chains are sampled.",
        ref="3 C18"),
    "C19": dict(
        technique="differential trace monitor (fresh-process baseline vs. after histories / in threads with sys.monitoring yield "
                  "injection / other hash seeds / ambient decimal contexts) + global-state fingerprint + fd-level output guard",
        text="A ~450-input probe set (all versions, valid/invalid, 3.0/3.1 twins with differing scores in both orders, RH "
             "strings, texts, dialogues) is observed in a fresh process and again (1) after seeded histories of ~150-400 API "
             "calls of all kinds incl. interactive and CLI runs, with early objects kept and re-observed, (2) while 8 threads "
             "hammer a shared pool with 10us switch interval and seeded yields injected at library lines through "
             "sys.monitoring (evidence: cross-thread switches inside library code, distinct switch points), (3) in fresh "
             "processes under other PYTHONHASHSEEDs, (4) under 8 rounding modes x 4 precisions. Before/after each history "
             "the data globals of all cvss modules and classes, the exception MROs, decimal context, sys.path, "
             "warnings.filters are fingerprinted; stdout/stderr are guarded at Python and fd level.",
        note="Thread schedules, histories and contexts are sampled. Decimal signal flags excluded from the fingerprint "
             "(every decimal operation sets them).",
        ref="3 C19"),
    "C20": dict(
        technique="differential runtime monitor: one probe transcript per interpreter (2.7, 3.6-3.13) vs. the reference "
                  "interpreter; real CLI subprocesses per interpreter",
        text="A Python 2/3 common-subset probe runs the public API over a seeded corpus (vectors of every version, mutants, "
             "RH strings, texts, answer scripts, in-process command lines incl. non-ASCII) under each of the nine installed "
             "interpreters; transcripts (error class names, scores, ratings, vectors, JSON items with key order for "
             "sort=True, extraction results, builder results and output, CLI output/exit) must equal /venv's. 18 command "
             "lines are also run as real subprocesses per interpreter. Import failure = violation; missing interpreter = "
             "inconclusive. The corpus includes score spellings and blanks whose treatment by the builtins float()/strip() "
             "follows the interpreter (underscores, every script's digits, exotic blanks), code points whose Unicode properties "
             "differ between the interpreters' databases, and the process-global "
             "state before import and after the corpus. Found and fixed F4 (2.7 dispatch), a 2.7 JSON whitespace divergence, "
             "F8 (hash-order of extraction results) and F10 (2.7 answers handled as bytes); open known findings: F5 (2.7 "
             "non-ASCII argv), F7 (2.7 unsorted key order), F9 (from_rh_vector follows the interpreter's float()), the U+180E "
             "remainder of F10 -- each keyed by its mechanism.",
        note="Only the interpreters installed in this image, one platform.",
        ref="3 C20"),
}

NOT_BUILT_REASON = "check not built yet (framework under construction; see DESIGN.md section 3 for the planned monitor)"


def main():
    props = [json.loads(l) for l in open(os.path.join(HERE, "properties.jsonl"))]
    checks, na = [], []
    for p in props:
        pid = p["id"]
        built = os.path.exists(os.path.join(HERE, "vmon", "monitors", pid + ".py"))
        if built and pid in CHECKS:
            c = CHECKS[pid]
            checks.append({
                "property_id": pid,
                "quick_cmd": "./check %s quick" % pid,
                "thorough_cmd": "./check %s thorough" % pid,
                "evidence_file": "evidence/%s.json" % pid,
                "replay_cmd_template": "./check %s --replay {path}" % pid,
                "engine": "vmon",
                "level_claimed": {"category": "exploration", "text": c["text"], "design_ref": "DESIGN.md section " + c["ref"]},
                "level_note": c["note"],
                "technique": c["technique"],
            })
        else:
            na.append({"property_id": pid, "reason": NOT_BUILT_REASON})
    man = {
        "version": 1,
        "setup_cmd": "./setup.sh",
        "hooks": {
            "guard": "CVSS_VERIF",
            "enable": "no source hooks: all instrumentation (icontract contracts, wrappers, sys.monitoring callbacks, "
                      "rounding-margin hooks) is attached at run time by /verif/vmon to the modules imported from /repo's "
                      "working tree; ./check exports CVSS_VERIF=1 for uniformity",
            "baseline_off_cmd": PINNED,
            "source_commits": [],
            "add_only": True,
        },
        "engines": [{
            "name": "vmon", "path": "vmon/",
            "serves_properties": [c["property_id"] for c in checks],
            "kind_free_text": "runtime monitoring: contracts and reference-model / relational / trace monitors attached to the "
                              "real library, driven by exhaustive and hostile workloads (python, /venv/bin/python)",
        }],
        "checks": checks,
        "not_applicable": na,
        "notes": "All checks: ./check <ID> quick|thorough|selftest|--replay <path>; exit 0 held, 1 violated, 2 inconclusive. "
                 "Known findings: known_findings.json. Seeded faults used to validate the monitors: seeded/ and "
                 "'./check <ID> selftest'.",
    }
    with open(os.path.join(HERE, "MANIFEST.json"), "w") as f:
        json.dump(man, f, indent=1)
        f.write("\n")
    print("claimed:", [c["property_id"] for c in checks])
    print("not claimed:", [n["property_id"] for n in na])


if __name__ == "__main__":
    main()
