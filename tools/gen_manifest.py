#!/usr/bin/env python3
"""Regenerates /verif/MANIFEST.json from the table below.  A property is claimed when
vmon/monitors/<ID>.py exists; otherwise it is listed under not_applicable with the
reason 'not built yet' (temporary, while the framework is being built)."""
import json
import os

HERE = os.path.dirname(os.path.dirname(os.path.abspath(__file__)))
PINNED = ("cd /repo && /venv/bin/python -m pytest -ra -q -p no:cacheprovider --timeout=900 "
          "--continue-on-collection-errors")

CHECKS = {
    "C01": dict(
        technique="runtime reference-model monitor (exact-Fraction v3 model) over an exhaustive quotient sweep",
        text="Every constructed v3 object is observed at the API boundary and its three scores compared with an independent "
             "exact-arithmetic evaluation of the FIRST equations; thorough drives the real constructor through the complete "
             "finite quotient the property names (7,236,864 constructions) plus 200k random spellings, quick through all "
             "5,184 base and 5,184 modified assignments with sampled remaining metrics. Held = no disagreement on the "
             "executions produced; evidence lists monitor evaluation counts and, per named deviant model (other rounding, "
             "swapped 3.0/3.1 formula, PR under the other scope, no 0.915 cap ...), how many cases would have exposed it.",
        note="Trusts spec/ref3.py (self-checked every run against 5,215 pinned official vectors), CPython fractions/decimal. "
             "Independence from spelling is sampled here (exhaustive part uses one spelling) and is C05/C06's subject.",
        ref="3 C01"),
    "C02": dict(
        technique="runtime reference-model monitor (exact-Fraction v4 model, first-principles EQ levels) over a stratified / "
                  "exhaustive sweep",
        text="Every constructed v4 object's base_score/scores() is compared with an independent exact evaluation of the "
             "macrovector/interpolation algorithm (EQ predicates typed from the specification, highest-severity vectors and "
             "depths derived by enumerating each EQ level, pinned 270-entry lookup table). Quick exercises every one of the "
             "270 macrovectors on every run (all highest-severity vectors, lowest member, random members) plus random "
             "spellings; thorough constructs all 15,116,544 effective assignments. Evidence reports macrovectors exercised, "
             "exact ties seen, and per deviant model the number of discriminating cases.",
        note="Trusts the pinned lookup table (sha256 recorded, monotone, 1,694 official vectors reproduce) and spec/ref4.py. "
             "A run that exercised fewer than 270 macrovectors is inconclusive.",
        ref="3 C02"),
    "C03": dict(
        technique="runtime reference-model monitor (exact-Fraction v2 model) over an exhaustive quotient sweep",
        text="Every constructed v2 object's scores() (numbers and None-ness, both directions) is compared with an exact "
             "evaluation of the v2 guide equations; quick covers all 729 base x all 49 temporal cases plus sampled "
             "environmental cases and definedness probes; thorough all 19,325,061 (729 x 49 x 541) cases. Negative exact "
             "ties of intermediate values, which the guide leaves undefined, are evaluated under both readings and counted.",
        note="Trusts spec/ref2.py (self-checked each run against 758 pinned official vectors incl. all 729 base vectors).",
        ref="3 C03"),
    "C14": dict(
        technique="relational runtime monitor over severity lines; thorough = offline numpy checker over recorded score tables",
        text="Scores observed while one metric runs through its severity order with all else fixed must be non-increasing. "
             "Quick: ~200k lines incl. lines through every metric from members of every v4 macrovector; thorough records the "
             "complete score tables from the real constructor (v4 15.1M points, v3 13.9M, v2 35k) and checks every one-step "
             "pair along every axis. Independent of the reference models and of the pinned lookup table.",
        note="Severity orders typed from the specifications; v3.0 environmental exempt for C/I/A, MC/MI/MA, CR/IR/AR as the "
             "property states (the check counts and reports the exempt non-monotone pairs).",
        ref="3 C14"),
}

NOT_BUILT_REASON = "check not built yet (framework under construction; see DESIGN.md section 3 for the planned monitor)"


def main():
    props = [json.loads(l) for l in open(os.path.join(HERE, "properties.jsonl"))]
    checks, na = [], []
    for p in props:
        pid = p["id"]
        built = os.path.exists(os.path.join(HERE, "vmon", "monitors", pid + ".py"))
        if built and pid in CHECKS:
            c = CHECKS[pid]
            checks.append({
                "property_id": pid,
                "quick_cmd": "./check %s quick" % pid,
                "thorough_cmd": "./check %s thorough" % pid,
                "evidence_file": "evidence/%s.json" % pid,
                "replay_cmd_template": "./check %s --replay {path}" % pid,
                "engine": "vmon",
                "level_claimed": {"category": "exploration", "text": c["text"], "design_ref": "DESIGN.md section " + c["ref"]},
                "level_note": c["note"],
                "technique": c["technique"],
            })
        else:
            na.append({"property_id": pid, "reason": NOT_BUILT_REASON})
    man = {
        "version": 1,
        "setup_cmd": "./setup.sh",
        "hooks": {
            "guard": "CVSS_VERIF",
            "enable": "no source hooks: all instrumentation (icontract contracts, wrappers, sys.monitoring callbacks, "
                      "rounding-margin hooks) is attached at run time by /verif/vmon to the modules imported from /repo's "
                      "working tree; ./check exports CVSS_VERIF=1 for uniformity",
            "baseline_off_cmd": PINNED,
            "source_commits": [],
            "add_only": True,
        },
        "engines": [{
            "name": "vmon", "path": "vmon/",
            "serves_properties": [c["property_id"] for c in checks],
            "kind_free_text": "runtime monitoring: contracts and reference-model / relational / trace monitors attached to the "
                              "real library, driven by exhaustive and hostile workloads (python, /venv/bin/python)",
        }],
        "checks": checks,
        "not_applicable": na,
        "notes": "All checks: ./check <ID> quick|thorough|selftest|--replay <path>; exit 0 held, 1 violated, 2 inconclusive. "
                 "Known findings: known_findings.json. Seeded faults used to validate the monitors: seeded/ and "
                 "'./check <ID> selftest'.",
    }
    with open(os.path.join(HERE, "MANIFEST.json"), "w") as f:
        json.dump(man, f, indent=1)
        f.write("\n")
    print("claimed:", [c["property_id"] for c in checks])
    print("not claimed:", [n["property_id"] for n in na])


if __name__ == "__main__":
    main()
