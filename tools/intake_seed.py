#!/usr/bin/env python3
"""tools/intake_seed.py <worktree> <N> <property> <name> "<needs>"  [--py <interpreter>]
Copies seedN.diff / demoN.py / notesN.md from a sub-agent's scratch worktree into
/verif/seeded/<property>-<name>/ (patch.diff, demo.py, notes.md, meta.json)."""
import json
import os
import shutil
import sys

wt, n, prop, name, needs = sys.argv[1:6]
py = sys.argv[7] if len(sys.argv) > 7 and sys.argv[6] == "--py" else "/venv/bin/python"
dst = os.path.join(os.path.dirname(os.path.dirname(os.path.abspath(__file__))), "seeded", "%s-%s" % (prop, name))
os.makedirs(dst, exist_ok=True)
shutil.copy(os.path.join(wt, "seed%s.diff" % n), os.path.join(dst, "patch.diff"))
shutil.copy(os.path.join(wt, "demo%s.py" % n), os.path.join(dst, "demo.py"))
if os.path.exists(os.path.join(wt, "notes%s.md" % n)):
    shutil.copy(os.path.join(wt, "notes%s.md" % n), os.path.join(dst, "notes.md"))
meta = {"property": prop, "breaks": prop, "needs_to_manifest": needs, "origin": "independent sub-agent given only the property text",
        "demo_python": py,
        "confirmed_by": "tools/run_seeded.py --confirm (pinned tests 34 passed / 21 failed with and without; demo.py exits 0 "
                        "without and non-zero with the change)"}
with open(os.path.join(dst, "meta.json"), "w") as f:
    json.dump(meta, f, indent=1)
print(dst)
