#!/usr/bin/env python3
"""tools/intake_wave.py <worktree-prefix> <property> [...]
Intake of a wave whose sub-agents wrote nameN.txt (`kebab-name | needs`) next to
seedN.diff / demoN.py / notesN.md:  tools/intake_wave.py /tmp/wt5- C01 C02 ...
Prints the names of the seeds taken in (for tools/run_seeded.py --confirm)."""
import os
import re
import subprocess
import sys

here = os.path.dirname(os.path.abspath(__file__))
prefix = sys.argv[1]
out = []
for prop in sys.argv[2:]:
    wt = prefix + prop
    for n in ("1", "2"):
        nf = os.path.join(wt, "name%s.txt" % n)
        if not (os.path.exists(nf) and os.path.exists(os.path.join(wt, "seed%s.diff" % n))):
            print("MISSING %s #%s" % (wt, n), file=sys.stderr)
            continue
        line = open(nf).read().strip().split("\n")[0]
        name, _, needs = line.partition("|")
        name = re.sub(r"[^a-zA-Z0-9]+", "-", name.strip()).strip("-")[:70]
        notes = open(os.path.join(wt, "notes%s.md" % n)).read() if os.path.exists(os.path.join(wt, "notes%s.md" % n)) else ""
        args = [sys.executable, os.path.join(here, "intake_seed.py"), wt, n, prop, name, needs.strip()]
        m = re.search(r"/root/\.pyenv/versions/([0-9.]+)/bin/python", open(os.path.join(wt, "demo%s.py" % n)).read() + notes)
        subprocess.run(args, check=True, stdout=subprocess.DEVNULL)
        out.append("%s-%s" % (prop, name))
print(" ".join(out))
