#!/usr/bin/env python3
"""tools/mark_other_interp.py <seed-name> [...]: the seeded change manifests only under an interpreter other
than the one the property's own check runs under (/venv, 3.12); its own check cannot see it by design, C20 must."""
import json
import os
import sys

here = os.path.dirname(os.path.dirname(os.path.abspath(__file__)))
for name in sys.argv[1:]:
    p = os.path.join(here, "seeded", name, "meta.json")
    m = json.load(open(p))
    m["also_run"] = sorted(set(m.get("also_run", []) + ["C20"]))
    m["disposition"] = ("manifests only under an interpreter other than the repository's (3.12), under which the property's own "
                        "check runs: not visible to it by design; C20 (every supported interpreter) must catch it")
    json.dump(m, open(p, "w"), indent=1)
