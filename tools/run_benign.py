#!/usr/bin/env python3
"""Negative controls: run ALL checks against behaviour-preserving changes kept under
/verif/benign/<name>/patch.diff (refactorings / correct optimisations produced by
independent sub-agents and verified by them with a differential check against the
original code).  Every check must stay silent (exit 0) on every one of them.

    tools/run_benign.py [--tier quick|thorough] [--checks C01,C02] [name ...]

Prints one line per (change, check) that is NOT exit 0 and a summary; results are
written to benign/RESULTS.json.
"""
import argparse
import json
import os
import shutil
import subprocess
import sys
import functools
print = functools.partial(print, flush=True)
import tempfile

VERIF = os.path.dirname(os.path.dirname(os.path.abspath(__file__)))
REPO = "/repo"
ALL = ["C%02d" % i for i in range(1, 21)]


def main():
    ap = argparse.ArgumentParser()
    ap.add_argument("--tier", default="quick")
    ap.add_argument("--checks", default=",".join(ALL))
    ap.add_argument("names", nargs="*")
    a = ap.parse_args()
    bdir = os.path.join(VERIF, "benign")
    names = a.names or sorted(n for n in os.listdir(bdir) if os.path.isdir(os.path.join(bdir, n)))
    respath = os.path.join(bdir, "RESULTS.json")
    results = json.load(open(respath)) if os.path.exists(respath) else {}
    bad = 0
    for name in names:
        d = tempfile.mkdtemp(prefix="benignrun-")
        try:
            subprocess.run("git -C %s archive HEAD | tar -x -C %s" % (REPO, d), shell=True, check=True)
            p = subprocess.run(["patch", "-p1", "-s", "-i", os.path.join(bdir, name, "patch.diff")], cwd=d, stdout=subprocess.PIPE,
                               stderr=subprocess.STDOUT, universal_newlines=True)
            if p.returncode != 0:
                print("%-40s PATCH DOES NOT APPLY %s" % (name, p.stdout[-200:]))
                continue
            t = subprocess.run(["/venv/bin/python", "-m", "pytest", "-q", "-p", "no:cacheprovider", "--timeout=900",
                                "--continue-on-collection-errors"], cwd=d, stdout=subprocess.PIPE, stderr=subprocess.STDOUT,
                               universal_newlines=True).stdout.strip().split("\n")[-1]
            entry = results.setdefault(name, {})
            entry["tests"] = t
            env = dict(os.environ, CVSS_REPO=d)
            silent = []
            for pid in a.checks.split(","):
                pr = subprocess.run([os.path.join(VERIF, "check"), pid, a.tier, "--no-evidence"], cwd=VERIF, env=env,
                                    stdout=subprocess.PIPE, stderr=subprocess.STDOUT, universal_newlines=True)
                keys = sorted(set(l.split("key=")[1].split(" count=")[0] for l in pr.stdout.splitlines() if l.startswith("   monitor=")))
                inc = [l for l in pr.stdout.splitlines() if l.startswith("INCONCLUSIVE")]
                entry.setdefault("checks", {})["%s:%s" % (pid, a.tier)] = {"exit": pr.returncode, "keys": keys[:6], "inconclusive": inc[:2]}
                if pr.returncode != 0:
                    bad += 1
                    print("%-40s %s %s exit=%d %s %s" % (name, pid, a.tier, pr.returncode, ",".join(keys)[:160], " | ".join(inc)[:200]))
                else:
                    silent.append(pid)
            print("%-40s tests: %s; silent checks: %d/%d" % (name, t[:40], len(silent), len(a.checks.split(","))))
        finally:
            shutil.rmtree(d, ignore_errors=True)
        with open(respath, "w") as f:
            json.dump(results, f, indent=1, sort_keys=True)
    print("alarms on behaviour-preserving changes: %d" % bad)
    return 1 if bad else 0


if __name__ == "__main__":
    sys.exit(main())
