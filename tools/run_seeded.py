#!/usr/bin/env python3
"""Run checks against the seeded changes kept under /verif/seeded/<name>/.

    tools/run_seeded.py [--tier quick|thorough] [--all-checks] [--confirm] [name ...]

For each seeded change: a scratch copy of /repo's HEAD is made under /tmp, patch.diff is
applied there (never in /repo), optionally the change is re-confirmed (--confirm: the
repository's pinned tests still pass 34/21 on the copy, the demonstration fails with the
change and passes without), then the check of the property named in meta.json (or all 20
with --all-checks) is run with CVSS_REPO pointing at the copy.  The copy is removed.
Prints one line per (change, check): CAUGHT (exit 1) / MISSED (exit 0) / INCONCLUSIVE.
Results are written to seeded/RESULTS.json.
"""
import argparse
import json
import os
import shutil
import subprocess
import sys
import tempfile

VERIF = os.path.dirname(os.path.dirname(os.path.abspath(__file__)))
REPO = "/repo"
PYTEST = ["/venv/bin/python", "-m", "pytest", "-q", "-p", "no:cacheprovider", "--timeout=900", "--continue-on-collection-errors",
          "-x", "--no-header", "-rN"]
ALL = ["C%02d" % i for i in range(1, 21)]


def sh(cmd, cwd=None, env=None, timeout=7200):
    p = subprocess.run(cmd, cwd=cwd, env=env, stdout=subprocess.PIPE, stderr=subprocess.STDOUT, universal_newlines=True, timeout=timeout)
    return p.returncode, p.stdout


def scratch_copy():
    d = tempfile.mkdtemp(prefix="seedrun-")
    p = subprocess.run("git -C %s archive HEAD | tar -x -C %s" % (REPO, d), shell=True)
    if p.returncode != 0:
        raise RuntimeError("cannot copy repo")
    return d


def pytest_counts(d):
    p = subprocess.run(["/venv/bin/python", "-m", "pytest", "-q", "-p", "no:cacheprovider", "--timeout=900",
                        "--continue-on-collection-errors"], cwd=d, stdout=subprocess.PIPE, stderr=subprocess.STDOUT,
                       universal_newlines=True)
    last = [l for l in p.stdout.strip().split("\n") if "passed" in l or "failed" in l]
    import re
    return re.sub(r" in [0-9.]+s.*", "", last[-1]) if last else p.stdout[-200:]


def run_demo(d, demo, meta):
    py = meta.get("demo_python", "/venv/bin/python")
    p = subprocess.run([py, demo], cwd=d, stdout=subprocess.PIPE, stderr=subprocess.STDOUT, universal_newlines=True, timeout=1200)
    return p.returncode


def main():
    ap = argparse.ArgumentParser()
    ap.add_argument("--tier", default="quick")
    ap.add_argument("--all-checks", action="store_true")
    ap.add_argument("--confirm", action="store_true")
    ap.add_argument("names", nargs="*")
    a = ap.parse_args()
    sdir = os.path.join(VERIF, "seeded")
    names = a.names or sorted(n for n in os.listdir(sdir) if os.path.isdir(os.path.join(sdir, n)))
    respath = os.path.join(sdir, "RESULTS.json")
    results = json.load(open(respath)) if os.path.exists(respath) else {}
    for name in names:
        sd = os.path.join(sdir, name)
        meta = json.load(open(os.path.join(sd, "meta.json")))
        d = scratch_copy()
        try:
            entry = results.setdefault(name, {})
            if a.confirm:
                demo = [f for f in os.listdir(sd) if f.startswith("demo")][0]
                shutil.copy(os.path.join(sd, demo), os.path.join(d, demo))
                clean_rc = run_demo(d, demo, meta)
                clean_tests = pytest_counts(d)
            p = subprocess.run(["git", "apply", "--unsafe-paths", "--directory=" + d, os.path.join(sd, "patch.diff")], cwd="/",
                               stdout=subprocess.PIPE, stderr=subprocess.STDOUT, universal_newlines=True)
            if p.returncode != 0:
                p = subprocess.run(["patch", "-p1", "-i", os.path.join(sd, "patch.diff")], cwd=d, stdout=subprocess.PIPE,
                                   stderr=subprocess.STDOUT, universal_newlines=True)
                if p.returncode != 0:
                    print("%-44s PATCH DOES NOT APPLY: %s" % (name, p.stdout[-200:]))
                    entry["applies"] = False
                    continue
            entry["applies"] = True
            if a.confirm:
                entry["confirm"] = {"demo_exit_clean": clean_rc, "demo_exit_changed": run_demo(d, demo, meta),
                                    "tests_clean": clean_tests, "tests_changed": pytest_counts(d)}
                c = entry["confirm"]
                okc = c["demo_exit_clean"] == 0 and c["demo_exit_changed"] != 0 and c["tests_clean"] == c["tests_changed"]
                print("%-44s confirm: demo clean=%s changed=%s; tests clean='%s' changed='%s' -> %s" % (
                    name, c["demo_exit_clean"], c["demo_exit_changed"], c["tests_clean"], c["tests_changed"],
                    "CONFIRMED" if okc else "NOT CONFIRMED"))
            checks = ALL if a.all_checks else [meta["property"]] + meta.get("also_run", [])
            env = dict(os.environ, CVSS_REPO=d)
            for pid in checks:
                rc, out = sh([os.path.join(VERIF, "check"), pid, a.tier, "--no-evidence"], cwd=VERIF, env=env)
                keys = sorted(set(l.split("key=")[1].split(" count=")[0] for l in out.splitlines() if l.startswith("   monitor=")))
                verdict = {0: "MISSED", 1: "CAUGHT", 2: "INCONCLUSIVE"}.get(rc, "rc=%s" % rc)
                entry.setdefault("checks", {})["%s:%s" % (pid, a.tier)] = {"verdict": verdict, "keys": keys[:8]}
                if pid == meta["property"] or verdict != "MISSED":
                    print("%-44s %s %-8s %-12s %s" % (name, pid, a.tier, verdict, ",".join(keys)[:140]))
                if rc == 2:
                    print(out[-800:])
        finally:
            shutil.rmtree(d, ignore_errors=True)
        with open(respath, "w") as f:
            json.dump(results, f, indent=1, sort_keys=True)


if __name__ == "__main__":
    main()
