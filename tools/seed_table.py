#!/usr/bin/env python3
"""Regenerates the seeded-change table of DESIGN.md section 9 from seeded/RESULTS.json."""
import json
import os
import re

HERE = os.path.dirname(os.path.dirname(os.path.abspath(__file__)))
res = json.load(open(os.path.join(HERE, "seeded", "RESULTS.json")))
rows = ["| Seeded change | breaks | needs | own check (quick) | other checks that also fire (quick) |", "|---|---|---|---|---|"]
n = caught = 0
for name in sorted(res):
    mp = os.path.join(HERE, "seeded", name, "meta.json")
    if not os.path.exists(mp):
        continue
    meta = json.load(open(mp))
    pid = meta["property"]
    checks = res[name].get("checks", {})
    own = checks.get(pid + ":quick", {}).get("verdict", "not run")
    others = sorted(k.split(":")[0] for k, v in checks.items() if k.endswith(":quick") and v["verdict"] == "CAUGHT" and not k.startswith(pid + ":"))
    thor = checks.get(pid + ":thorough", {}).get("verdict")
    if thor:
        own += " / thorough: " + thor
    n += 1
    caught += own.startswith("CAUGHT") or bool(others)
    rows.append("| %s | %s | %s | %s | %s |" % (name, pid, meta["needs_to_manifest"][:110].replace("|", "/"), own, ", ".join(others) or "-"))
rows.append("")
rows.append("%d seeded changes, %d caught by at least one quick check." % (n, caught))
p = os.path.join(HERE, "DESIGN.md")
s = open(p).read()
block = "<!-- SEED-TABLE-BEGIN -->\n" + "\n".join(rows) + "\n<!-- SEED-TABLE-END -->"
s = re.sub(r"<!-- SEED-TABLE-BEGIN -->.*<!-- SEED-TABLE-END -->", lambda m: block, s, flags=re.S)
open(p, "w").write(s)
print(rows[-1])
