"""Locate the repository under test, import cvss from its working tree, make the
third-party dependencies of the harness importable.

Nothing here is specific to a property.  The library is always imported from the
working tree named by CVSS_REPO (default /repo) and never from an installed copy:
`lib()` asserts that cvss.__file__ lies under it.
"""
import importlib
import os
import sys

VERIF = os.path.dirname(os.path.dirname(os.path.abspath(__file__)))
REPO = os.path.realpath(os.environ.get("CVSS_REPO", "/repo"))
DEPS = os.path.join(VERIF, ".deps")

_lib = None


def ensure_deps():
    if DEPS not in sys.path:
        sys.path.append(DEPS)


class Lib(object):
    """Handle on the imported library: the public names the properties speak about."""

    def __init__(self):
        if REPO not in sys.path:
            sys.path.insert(0, REPO)
        import cvss  # noqa

        here = os.path.realpath(os.path.dirname(cvss.__file__))
        if not here.startswith(REPO + os.sep):
            raise RuntimeError("cvss imported from %s, not from %s" % (here, REPO))
        self.cvss = cvss
        self.CVSS2 = cvss.CVSS2
        self.CVSS3 = cvss.CVSS3
        self.CVSS4 = cvss.CVSS4
        self.CLS = {"2": cvss.CVSS2, "3": cvss.CVSS3, "4": cvss.CVSS4}
        self.exceptions = importlib.import_module("cvss.exceptions")
        self.CVSSError = self.exceptions.CVSSError
        self.parser = importlib.import_module("cvss.parser")
        self.interactive = importlib.import_module("cvss.interactive")
        self.calculator = importlib.import_module("cvss.cvss_calculator")
        self.path = here

    def exc(self, name):
        return getattr(self.exceptions, name)


def lib():
    global _lib
    if _lib is None:
        _lib = Lib()
    return _lib
