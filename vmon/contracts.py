"""Runtime contracts attached from the harness to the REAL classes (icontract).

attach(P) decorates cvss.CVSS2/3/4 in place (the class objects stay the same, so
references bound earlier -- cvss.parser.CVSS3, cvss_calculator.CVSS4 -- are covered):

  ensure   on __init__       records the supplied string on the instance
  invariant (every public / dunder call, and once after __init__)
                             C09 object invariant: scores well-formed, ratings per scale
  ensure   on clean_vector   C07 structure of the canonical form, C08 validity
  ensure   on rh_vector      C08 validity of the vector part, C12 format
  ensure   on as_json        C10 schema validity, C11 identity / scores / metric fields
  ensure   on temporal_vector / environmental_vector   C15 structure and values

Every condition RECORDS into the current Part and returns True (the runner, not an
exception, carries the verdict, so one violation does not mask later ones); each has an
evaluation counter -- a counter that stays at zero means the contract was bypassed and
the run is inconclusive.  Objects that the library builds ITSELF (from_rh_vector, the text
extractor, the CLI, the repository's own tests) are thereby judged by the same oracles
as the objects the workloads build.
"""
import json
import os
import subprocess
import sys

from . import bootstrap
from . import obs
from .bootstrap import lib
from .spec import tables as T


class ContractBroken(Exception):
    pass


_state = {"P": None, "busy": False, "attached": False, "no_schema": False}


def _ver(self):
    L = lib()
    return "2" if isinstance(self, L.CVSS2) else "3" if isinstance(self, L.CVSS3) else "4"


def _guarded(fn):
    """Conditions call accessors of the object they judge; nested conditions are skipped."""
    def wrapper(*a, **kw):
        if _state["busy"] or _state["P"] is None:
            return True
        _state["busy"] = True
        try:
            fn(*a, **kw)
        except Exception as e:  # a crash of the oracle must never look like a verdict
            _state["P"].notes.append("INCONCLUSIVE:contract condition crashed: %r" % (e,))
        finally:
            _state["busy"] = False
        return True
    return wrapper


_side = {}  # id(obj) -> (obj, input): fallback for classes that do not allow new attributes (__slots__)


def _input(self):
    s = getattr(self, "_vmon_input", None)
    if s is None:
        ent = _side.get(id(self))
        if ent is not None and ent[0] is self:
            s = ent[1]
    return s if isinstance(s, str) else None


def _usable(self):
    """Judge only objects whose supplied string the independent recogniser accepts (an
    accepted invalid string is C04's business)."""
    s = _input(self)
    return s is not None and T.classify(_ver(self), s) == T.ACCEPT


# NB: parameter names must match the decorated functions' (icontract resolves by name)
def post_init(self, vector):
    try:
        object.__setattr__(self, "_vmon_input", vector)
    except Exception:
        # __slots__ without __dict__: keep the object alive in a side table (a strong reference,
        # so that its id can never be reused by another object)
        _side[id(self)] = (self, vector)
    if _state["P"] is not None:
        _state["P"].ev("contract:__init__")
    return True


@_guarded
def _inv(self):
    from .monitors import C09
    P = _state["P"]
    if not _usable(self):
        return
    P.ev("contract:invariant")
    ver, s = _ver(self), _input(self)
    C09.judge_object(P, ver, self, s, False, {"ver": ver, "vector": s, "via": "contract"})


def inv_scores(self):
    return _inv(self)


@_guarded
def _clean(self, result, output_prefix):
    from .monitors import C07, C08
    P = _state["P"]
    if not _usable(self):
        return
    P.ev("contract:clean_vector")
    ver, s = _ver(self), _input(self)
    case = {"ver": ver, "vector": s, "via": "contract", "output_prefix": output_prefix}
    prefix, fields = T.parse(ver, s)
    if not isinstance(result, str):
        P.violation("clean-structure", "C07:v%s:clean-not-a-string" % ver, case, observed=repr(result))
        return
    sp = C07.split_clean(ver, result, bool(output_prefix) or ver == "2")
    want = sorted(m + ":" + v for m, v in T.defined(ver, fields).items())
    if sp is None or (output_prefix and ver != "2" and sp[0] != prefix):
        P.violation("clean-structure", "C07:v%s:clean-wrong-prefix" % ver, case, observed=result)
    elif sorted(sp[1]) != want:
        P.violation("clean-structure", "C07:v%s:clean-fields-wrong:via-contract" % ver, case, observed=result)
    if output_prefix or ver == "2":
        C08.judge(P, ver, prefix, result, "clean_vector", case)


def post_clean2(self, result):
    return _clean(self, result, True)


def post_clean(self, result, output_prefix=True):
    return _clean(self, result, output_prefix)


@_guarded
def _rh(self, result):
    from .monitors import C08
    P = _state["P"]
    if not _usable(self):
        return
    P.ev("contract:rh_vector")
    ver, s = _ver(self), _input(self)
    case = {"ver": ver, "vector": s, "via": "contract"}
    prefix = T.split_prefix(ver, s)[0]
    if not isinstance(result, str) or "/" not in result:
        P.violation("rh-format", "C12:v%s:rh_vector-is-not-score-slash-clean-vector" % ver, case, observed=repr(result))
        return
    head, rest = result.split("/", 1)
    C08.judge(P, ver, prefix, rest, "rh_vector", case)
    ok, r = obs.call(lambda: ("%.1f" % self.scores()[0], self.clean_vector()))
    if ok and (head != r[0] or rest != r[1]):
        P.violation("rh-format", "C12:v%s:rh_vector-is-not-score-slash-clean-vector" % ver, case, observed=result)


def post_rh(self, result):
    return _rh(self, result)


@_guarded
def _json(self, result, sort, minimal):
    from .monitors import C10, C11
    P = _state["P"]
    if not _usable(self):
        return
    P.ev("contract:as_json")
    ver, s = _ver(self), _input(self)
    prefix, fields = T.parse(ver, s)
    case = {"ver": ver, "vector": s, "sort": bool(sort), "minimal": bool(minimal), "via": "contract"}
    if not isinstance(result, dict):
        P.violation("identity", "C11:v%s:as_json-not-a-dict" % ver, case)
        return
    d = dict(result)
    if not _state["no_schema"]:
        C10.judge_doc(P, ver, T.SCHEMA_TAG[prefix if ver != "2" else ""], d, case)
    m = dict(fields)
    ok, sc = obs.call(self.scores)
    if ok:
        C11.judge_single(P, ver, s, prefix, m, T.effective(ver, m), sc, d, bool(sort), bool(minimal), case)


def post_json(self, result, sort=False, minimal=False):
    return _json(self, result, sort, minimal)


@_guarded
def _sub(self, result, group):
    from .monitors import C15
    P = _state["P"]
    if not _usable(self):
        return
    P.ev("contract:" + group + "_vector")
    ver, s = _ver(self), _input(self)
    case = {"ver": ver, "vector": s, "via": "contract"}
    m = dict(T.parse(ver, s)[1])
    acc = group + "_vector"
    if not isinstance(result, str):
        P.violation("group-structure", "C15:v%s:%s-not-a-string" % (ver, acc), case)
        return
    parts = [f.split(":") for f in result.split("/")]
    if any(len(p) != 2 for p in parts) or [p[0] for p in parts] != T.GROUPS[ver][group]:
        P.violation("group-structure", "C15:v%s:%s-wrong-metric-set" % (ver, acc), case, observed=result)
        return
    for metric, v in parts:
        if v != C15.expected_value(ver, m, metric):
            P.violation("group-values", "C15:v%s:%s-reports-wrong-value-for-%s:via-contract" % (ver, acc, metric), case, observed=result)


def post_tv(self, result):
    return _sub(self, result, "temporal")


def post_ev(self, result):
    return _sub(self, result, "environmental")


def attach(P):
    """Attach all contracts (idempotent) and direct their findings to Part P."""
    bootstrap.ensure_deps()
    import icontract
    _state["P"] = P
    if _state["attached"]:
        return
    L = lib()
    for ver, cls in L.CLS.items():
        cls.__init__ = icontract.ensure(post_init, error=ContractBroken)(cls.__init__)
        cls.clean_vector = icontract.ensure(post_clean2 if ver == "2" else post_clean, error=ContractBroken)(cls.clean_vector)
        cls.rh_vector = icontract.ensure(post_rh, error=ContractBroken)(cls.rh_vector)
        cls.as_json = icontract.ensure(post_json, error=ContractBroken)(cls.as_json)
        if ver in ("2", "3"):
            cls.temporal_vector = icontract.ensure(post_tv, error=ContractBroken)(cls.temporal_vector)
            cls.environmental_vector = icontract.ensure(post_ev, error=ContractBroken)(cls.environmental_vector)
        same = icontract.invariant(inv_scores, error=ContractBroken)(cls)
        assert same is cls
    _state["attached"] = True


def redirect(P):
    _state["P"] = P


# ---------------------------------------------------------------------------
# Sessions: workloads in which the LIBRARY builds the objects
# ---------------------------------------------------------------------------
def inprocess_session(P, seed, n):
    """Text extraction, from_rh_vector and CLI runs with the contracts attached."""
    import random
    from .monitors import C13, C17
    from .workloads import vectors as V
    L = lib()
    attach(P)
    rng = random.Random("contracts-%s" % seed)
    for _ in range(n):
        t, kinds = C13.make_text(rng)
        ok, res = obs.call(L.parser.parse_cvss_from_text, t)
        if ok:
            for o in res:
                obs.call(lambda: (o.clean_vector(), o.rh_vector(), o.as_json(sort=True, minimal=True), o.scores(), hash(o)))
                if not isinstance(o, L.CVSS4):
                    obs.call(lambda: (o.temporal_vector(), o.environmental_vector()))
        P.stratum("contract-session:text")
    for _ in range(n):
        ver = rng.choice(T.VERSIONS)
        p, m, s = V.rand_vector(rng, ver)
        ok, o = obs.call(L.CLS[ver], s)
        if ok:
            ok, o2 = obs.call(L.CLS[ver].from_rh_vector, o.rh_vector())
            if ok:
                obs.call(lambda: (o2.clean_vector(output_prefix=False) if ver != "2" else o2.clean_vector(), o2.as_json(), o2.as_json(minimal=True)))
        P.stratum("contract-session:from_rh_vector")
    for argv, answers in C17.cases(rng, max(10, n // 4), False):
        C17.run_inprocess(argv, answers)
        P.stratum("contract-session:cli")
    redirect(None)


def repo_tests_session(P):
    """The repository's own test-suite with all contracts on (pytest plugin
    vmon.pytest_contracts); findings are merged into P."""
    out = os.path.join(bootstrap.VERIF, "replays", ".contracts-%d.json" % os.getpid())
    env = dict(os.environ, PYTHONPATH=bootstrap.VERIF + os.pathsep + bootstrap.REPO, VMON_CONTRACTS_OUT=out,
               PYTHONDONTWRITEBYTECODE="1")
    p = subprocess.run([sys.executable, "-B", "-m", "pytest", "-q", "-p", "no:cacheprovider", "-p", "vmon.pytest_contracts",
                        "--timeout=900", "--continue-on-collection-errors"],
                       cwd=bootstrap.REPO, env=env, stdout=subprocess.PIPE, stderr=subprocess.STDOUT, universal_newlines=True)
    try:
        with open(out) as f:
            doc = json.load(f)
        os.unlink(out)
    except Exception:
        P.notes.append("INCONCLUSIVE:repository tests under contracts produced no report: %s" % p.stdout[-300:])
        return
    for k, n in doc["counters"].items():
        P.ev("repo-tests:" + k, n)
    for w in doc["violations"]:
        P.nviol[(w["monitor"], w["key"])] += w.get("count", 1)
        P.viol.append(w)
    P.stratum("repo-tests-under-contracts:passed", doc.get("passed", 0))
    P.stratum("repo-tests-under-contracts:failed", doc.get("failed", 0))
    # a contract must never change the outcome of the repository's tests
    last = [l for l in p.stdout.strip().split("\n") if " passed" in l or " failed" in l]
    P.extra["repo_tests_under_contracts"] = last[-1][:80] if last else "?"


def contract_shard(P, pid, seed, n):
    inprocess_session(P, seed, n)
    repo_tests_session(P)


def session(R, pid, n=None):
    """Run both sessions in a child process (the decorated classes must not leak into the
    direct-mode workloads) and keep the findings that belong to property `pid`."""
    from .runner import Part
    n = n or R.pick(150, 3000)
    sub = Part()
    R_P = R.P
    try:
        R.P = sub
        R.pmap("contract_shard", [(pid, R.seed, n)], workers=1, module="vmon.contracts", fork=True)
    finally:
        R.P = R_P
    keep = Part()
    keep.counters = sub.counters
    keep.strata = sub.strata
    keep.extra = sub.extra
    keep.notes = sub.notes
    keep.evaluations = sub.evaluations
    for w in sub.viol:
        if w["key"].startswith(pid + ":"):
            keep.viol.append(w)
    for (mon, key), c in sub.nviol.items():
        if key.startswith(pid + ":"):
            keep.nviol[(mon, key)] = c
    R.P.merge(keep)
