"""Coverage-guided fuzzing session (atheris / libFuzzer) with a property's oracle.

    python -m vmon.fuzz C04|C13 <runs> <seed> <report.json> <workdir>

The cvss package is imported under atheris instrumentation (coverage feedback comes from
the library's own code), libFuzzer mutates from a seed corpus of valid vectors / texts
with a grammar dictionary, and every generated input is judged by the SAME oracle as the
enumerating workloads (C04: constructor outcome vs. recogniser for all three classes;
C13: text-extraction postcondition).  The oracle records instead of raising, so one
finding does not stop the session; libFuzzer's own crash detection stays on (an uncaught
exception inside the harness is reported as inconclusive by the caller).
"""
import atexit
import json
import os
import random
import shutil
import sys
import tempfile


def main():
    pid, runs, seed, out, tmp = sys.argv[1], int(sys.argv[2]), int(sys.argv[3]), sys.argv[4], sys.argv[5]
    from vmon import bootstrap
    bootstrap.ensure_deps()
    import atheris
    with atheris.instrument_imports(include=["cvss"]):
        bootstrap.lib()
    from vmon.runner import Part, jsonable
    from vmon.spec import tables as T
    from vmon.workloads import vectors as V
    P = Part()
    corpus = os.path.join(tmp, "corpus")
    os.makedirs(corpus)
    rng = random.Random("fuzz-%s-%s" % (pid, seed))
    if pid == "C04":
        from vmon.monitors import C04 as mod
        for i in range(300):
            ver = rng.choice(T.VERSIONS)
            with open(os.path.join(corpus, "v%d" % i), "wb") as f:
                f.write(V.rand_vector(rng, ver)[2].encode("utf-8"))

        def one(data):
            try:
                s = data.decode("utf-8")
            except UnicodeDecodeError:
                s = data.decode("latin-1")
            mod.check_string(P, s, "atheris")
    else:
        from vmon.monitors import C13 as mod
        for i in range(300):
            with open(os.path.join(corpus, "t%d" % i), "wb") as f:
                f.write(mod.make_text(rng)[0].encode("utf-8", "replace"))

        def one(data):
            try:
                s = data.decode("utf-8")
            except UnicodeDecodeError:
                s = data.decode("latin-1")
            mod.check_text(P, s)
    dpath = os.path.join(tmp, "dict")
    toks = set(["CVSS:3.0/", "CVSS:3.1/", "CVSS:4.0/", "/", ":", "CVSS:3.", "CVSS:"])
    for ver in T.VERSIONS:
        for m in T.ORDER[ver]:
            toks.add(m + ":")
            for v in T.VALUES[ver][m]:
                toks.add(m + ":" + v)
                toks.add(v)
    with open(dpath, "w") as f:
        for t in sorted(toks):
            f.write('"%s"\n' % t.replace("\\", "\\\\").replace('"', '\\"'))

    def report_only():
        viol, seen = [], {}
        for w in P.viol:
            k = (w["monitor"], w["key"])
            seen[k] = seen.get(k, 0) + 1
            if seen[k] <= 3:
                w = dict(w)
                w["count"] = P.nviol[k] if seen[k] == 1 else 0
                viol.append(jsonable(w))
        with open(out, "w") as f:
            json.dump({"counters": dict(P.counters), "violations": viol, "evaluations": P.evaluations,
                       "strata": dict(P.strata), "executions": n[0]}, f)

    def report():
        report_only()
    atexit.register(report)
    # libFuzzer leaves through _exit(): the report is (re)written from inside the callback
    inner = one
    n = [0]

    def one(data):  # noqa: F811
        inner(data)
        n[0] += 1
        if n[0] % 5000 == 0 or n[0] >= runs:
            report_only()
    atheris.Setup([sys.argv[0], "-runs=%d" % runs, "-seed=%d" % (seed + 1), "-dict=" + dpath, "-max_len=400", "-timeout=60",
                   "-print_final_stats=1", "-verbosity=0", corpus], one)
    atheris.Fuzz()


if __name__ == "__main__":
    main()


def session(R, pid, runs, nsessions):
    """Run nsessions fuzzing processes in parallel and merge their findings into R.P."""
    import concurrent.futures
    import subprocess
    from vmon import bootstrap

    def one(i):
        work = tempfile.mkdtemp(prefix="vmon-fuzz-")
        out = os.path.join(work, "report.json")
        try:
            p = subprocess.run([sys.executable, "-B", "-m", "vmon.fuzz", pid, str(runs), str(R.seed * 1000 + i), out, work],
                               cwd=bootstrap.VERIF, stdout=subprocess.PIPE, stderr=subprocess.PIPE, timeout=7200,
                               env=dict(os.environ, PYTHONHASHSEED="0"))
            with open(out) as f:
                return json.load(f), p.returncode, p.stderr.decode("utf-8", "replace")[-400:]
        except Exception as e:  # noqa
            return None, -1, repr(e)
        finally:
            shutil.rmtree(work, ignore_errors=True)

    P = R.P
    with concurrent.futures.ThreadPoolExecutor(max_workers=min(16, nsessions)) as ex:
        for doc, rc, err in ex.map(one, range(nsessions)):
            if doc is None:
                R.inconclusive.append("fuzzing session produced no report: %s" % err[-200:])
                continue
            if rc != 0:
                # libFuzzer found a crash of the harness/library it could not attribute: not a verdict
                R.inconclusive.append("fuzzing session ended with status %s: %s" % (rc, err[-200:]))
            P.ev("atheris-executions", doc.get("executions", 0))
            P.evaluations += doc.get("evaluations", 0)
            for k, n in doc["counters"].items():
                P.ev("atheris:" + k, n)
            for k, n in doc.get("strata", {}).items():
                P.stratum("atheris:" + k, n)
            for w in doc["violations"]:
                P.nviol[(w["monitor"], w["key"])] += w.get("count", 0) or 1
                P.viol.append(w)
