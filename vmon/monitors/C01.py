"""C01 -- CVSS v3.0/v3.1 scores equal the FIRST specification equations.

Oracle: spec/ref3 (exact Fractions).  Monitors:
  score-vs-reference   scores() == ref3(minor, metrics as written), slot by slot
  attr-vs-scores       float(obj.<slot>_score) == scores()[i]
  functional-dep       same effective assignment in another spelling => same scores
"""
import itertools

from .. import obs
from ..bootstrap import lib
from ..spec import ref3
from ..spec import tables as T
from ..workloads import vectors as V

ORACLES = ("tables", "ref3")
SLOTS = ("base", "temporal", "environmental")
RULE = ("v3 vectors generated from own grammar tables; a case is one accepted vector string; distinct = distinct "
        "(minor version, metrics-as-written) assignments; non-trivial = the library constructed it and all three "
        "scores were compared with the exact reference. Thorough enumerates the complete quotient named in the "
        "property (2 x 2,592 x 100 base/temporal spellings and 2 x 2,592 x 27 x 48 environmental cases).")


def check_vector(P, vec, variants=False, tag=None, channels=False):
    """Judge one v3 vector string (must be ACCEPTable by the grammar)."""
    P.remember({"vector": vec})
    if P.evaluations % 6 == 2:
        # the application first met rejected look-alikes of this very vector (a field repeated verbatim, a field missing,
        # the other letter case): what they leave behind must not change how the vector itself is scored
        f = vec.split("/")
        for bad in ("/".join(f + f[-1:]), "/".join(f[:1] + f), "/".join(f[:-1]), vec.lower(), vec + "/", "/".join(reversed(f + f[:1]))):
            obs.call(lib().CLS["3"], bad)
        P.stratum("rejected-look-alikes-constructed-first")
    L = lib()
    P.evaluations += 1
    ok, o = obs.call(obs.construct, L.CVSS3, vec)
    if not ok:
        P.violation("construct", "C01:exception:" + obs.exc_name(o), {"vector": vec}, error=repr(o))
        return None
    ok, got = obs.call(o.scores)
    if not ok:
        P.violation("scores()", "C01:scores-exception:" + obs.exc_name(got), {"vector": vec}, error=repr(got))
        return None
    p, fields = T.parse("3", vec)
    minor = int(p[7])
    m = dict(fields)
    exp = ref3.scores(minor, m)
    P.ev("score-vs-reference")
    bad = False
    if not isinstance(got, tuple) or len(got) != 3:
        P.violation("score-vs-reference", "C01:scores-shape", {"vector": vec}, observed=repr(got))
        return None
    for i, slot in enumerate(SLOTS):
        g = got[i]
        if isinstance(g, bool) or not isinstance(g, (int, float)) or obs.fr(g) != exp[i]:
            bad = True
            P.violation("score-vs-reference", "C01:3.%d:%s-score-differs-from-specification" % (minor, slot),
                        {"vector": vec}, observed=repr(got), expected=[float(x) for x in exp])
    # attributes agree with scores()
    P.ev("attr-vs-scores")
    for i, slot in enumerate(SLOTS):
        ok2, a = obs.call(getattr, o, slot + "_score")
        if not ok2:
            P.violation("attr-vs-scores", "C01:attribute-missing:" + slot, {"vector": vec}, error=repr(a))
        else:
            try:
                same = float(a) == got[i]
            except Exception:
                same = False
            if not same:
                P.violation("attr-vs-scores", "C01:attribute-differs:" + slot, {"vector": vec},
                            observed=repr(a), scores=repr(got))
    if channels or P.evaluations % 7 == 3:
        # the same scores from the object obtained another way (a copy, a pickle round trip, from_rh_vector, the extractor)
        how = obs.BUILT[(P.evaluations // 7) % len(obs.BUILT)]
        ok2, o2 = obs.call(obs.build, L, "3", vec, how)
        if ok2 and o2 is not None:
            P.ev("scores-of-object-obtained-otherwise")
            ok2, sc2 = obs.call(o2.scores)
            if not ok2 or sc2 != got:
                P.violation("score-channels", "C01:scores-differ-for-the-object-obtained-by:" + how, {"vector": vec}, constructor=repr(got), other=repr(sc2))
    if channels or P.evaluations % 5 == 0 or (any(k in m for k in T.GROUPS["3"]["temporal"]) != any(k in m for k in T.GROUPS["3"]["environmental"])):
        obs.check_score_channels(P, "C01", o, vec, got)
    if variants and not bad:
        for name in ref3.VARIANTS:
            if ref3.scores(minor, m, variant=name) != exp:
                P.stratum("discriminates:" + name)
    if exp[2] != exp[1]:
        P.stratum("environmental!=temporal")
    return got


def check_case(P, case):
    if "spellings" in case:
        check_fd(P, case["spellings"])
    else:
        check_vector(P, case["vector"], variants=True, channels=True)


def check_fd(P, spellings):
    """functional dependency: all spellings of one effective assignment score alike."""
    first = None
    for s in spellings:
        got = check_vector(P, s)
        if got is None:
            continue
        P.ev("functional-dep")
        if first is None:
            first = (s, got)
        elif got != first[1]:
            P.violation("functional-dep", "C01:same-effective-assignment-different-scores",
                        {"spellings": [first[0], s]}, observed=[repr(first[1]), repr(got)])


def _hook():
    return obs.MarginHook("cvss.cvss3", "round_up", "tenth")


# ---- shards -----------------------------------------------------------------
def shard_base_temporal(P, minor, av, mode, seed):
    """All base assignments with this (minor, AV) x temporal spellings.
    mode 'all': all 100 temporal spellings;  mode int k: k random ones."""
    import random
    rng = random.Random("C01-bt-%s-%s-%s" % (seed, minor, av))
    h = _hook()
    prefix = "CVSS:3.%d/" % minor
    for base in V.v3_base_assignments():
        if base["AV"] != av:
            continue
        tsp = V.V3_TEMPORAL_SPELLINGS if mode == "all" else [rng.choice(V.V3_TEMPORAL_SPELLINGS) for _ in range(mode)]
        for e, rl, rc in tsp:
            m = dict(base)
            m.update(E=e, RL=rl, RC=rc)
            vec = V.spell(prefix, m)
            check_vector(P, vec, variants=(mode != "all"))
            P.distinct_n += 1
            if P.evaluations % 4001 == 1:
                P.sample({"vector": vec})
    h.report(P, "round_up")
    h.remove()


def shard_env(P, minor, av, mode, seed):
    """All modified (effective environmental) assignments with this (minor, MAV) x
    requirement x effective temporal cases; the base metrics are fixed at values different
    from the modified ones where possible so that inheritance cannot mask an override."""
    import random
    rng = random.Random("C01-env-%s-%s-%s" % (seed, minor, av))
    h = _hook()
    prefix = "CVSS:3.%d/" % minor
    for mod in V.v3_base_assignments():
        if mod["AV"] != av:
            continue
        if mode == "all":
            rest = itertools.product(V.V3_REQ, V.V3_TEMPORAL_EFFECTIVE)
            base = {"AV": "P", "AC": "H", "PR": "H", "UI": "R", "S": "U", "C": "L", "I": "L", "A": "L"}
        else:
            rest = [(rng.choice(V.V3_REQ), rng.choice(V.V3_TEMPORAL_EFFECTIVE)) for _ in range(mode)]
            base = {k: rng.choice(T.VALUES["3"][k]) for k in T.MANDATORY["3"]}
        for (cr, ir, ar), (e, rl, rc) in rest:
            m = dict(base)
            for k, v in mod.items():
                m["M" + k] = v
            m.update(CR=cr, IR=ir, AR=ar, E=e, RL=rl, RC=rc)
            vec = V.spell(prefix, m)
            check_vector(P, vec, variants=(mode != "all"))
            P.distinct_n += 1
            if P.evaluations % 40001 == 1:
                P.sample({"vector": vec})
    h.report(P, "round_up")
    h.remove()


def shard_random(P, idx, n, seed):
    # odd shards run in a freshly started THREAD: a new thread has its own default decimal
    # context, so a rounding mode configured on the importing thread's context does not apply
    if idx % 2 == 1:
        import threading
        err = []

        def body():
            try:
                _shard_random(P, idx, n, seed)
            except BaseException as e:  # noqa
                err.append(e)
        t = threading.Thread(target=body)
        t.start()
        t.join()
        P.stratum("shards-run-in-a-fresh-thread")
        if err:
            raise err[0]
        return
    _shard_random(P, idx, n, seed)


def _shard_random(P, idx, n, seed):
    import random
    rng = random.Random("C01-rnd-%s-%s" % (seed, idx))
    h = _hook()
    for j in range(n):
        p, m, s = V.rand_vector(rng, "3", p_opt=rng.choice((0.2, 0.5, 0.9)), p_nd=0.25)
        # second spelling of the same effective assignment: permuted, ND toggled,
        # undefined modified metrics written as their base value
        nd = "X"
        m2 = {k: v for k, v in m.items() if v != nd}
        for k in T.OPTIONAL["3"]:
            if k not in m2:
                r = rng.random()
                if r < 0.3:
                    m2[k] = nd
                elif r < 0.6 and k in T.MODIFIED["3"]:
                    m2[k] = m[T.MODIFIED["3"][k]]
        s2 = V.spell(p, m2, "shuffle", rng)
        P.dist((p, tuple(sorted(m.items()))))
        check_vector(P, s, variants=True)
        P.evaluations -= 1  # the vector is evaluated again as part of the spelling group below
        check_fd(P, [s, s2])
        if j % 3001 == 0:
            P.sample({"spellings": [s, s2]})
    h.report(P, "round_up")
    h.remove()


def run(R):
    R.rule = RULE
    R.require("score-vs-reference", "attr-vs-scores", "functional-dep")
    R.assumptions = ["ref3 transcribes the FIRST v3.0/v3.1 equations and weights correctly (cross-checked on every run "
                     "against 5,215 pinned official calculator/cvsslib vectors)",
                     "scores compared as exact one-decimal numbers via repr(float)"]
    minors, avs = (0, 1), "NALP"
    if R.quick:
        R.pmap("shard_base_temporal", [(mi, av, 2, R.seed) for mi in minors for av in avs])
        R.pmap("shard_env", [(mi, av, 4, R.seed) for mi in minors for av in avs])
        R.pmap("shard_random", [(i, 1900, R.seed) for i in range(16)])
    else:
        R.pmap("shard_base_temporal", [(mi, av, "all", R.seed) for mi in minors for av in avs])
        R.pmap("shard_env", [(mi, av, "all", R.seed) for mi in minors for av in avs])
        R.pmap("shard_random", [(i, 12500, R.seed) for i in range(16)])
        R.exhaustive = True
    need = ["discriminates:" + v for v in ref3.VARIANTS]
    R.coverage_extra["variants_not_distinguished_by_this_run"] = [v for v in need if R.P.strata.get(v, 0) == 0]


# ---- in-memory seeded faults (selftest) -------------------------------------
def _m_weight(L):
    import cvss.cvss3 as c3
    from decimal import Decimal as D
    c3.METRICS_VALUES["AC"]["H"] = D("0.45")


def _m_nocap(L):
    import cvss.cvss3 as c3
    from decimal import Decimal as D

    def f(self):
        self.modified_isc_base = (D("1") - (D("1") - self.get_value("MC") * self.get_value("CR"))
                                  * (D("1") - self.get_value("MI") * self.get_value("IR"))
                                  * (D("1") - self.get_value("MA") * self.get_value("AR")))
    c3.CVSS3.compute_modified_isc_base = f


def _m_halfup(L):
    import cvss.cvss3 as c3
    from decimal import Decimal as D, ROUND_HALF_UP
    c3.round_up = lambda value: value.quantize(D("0.1"), rounding=ROUND_HALF_UP)


def _m_swap(L):
    import cvss.cvss3 as c3
    a, b = c3.CVSS3.compute_modified_isc, c3.CVSS3.compute_modified_isc_30
    c3.CVSS3.compute_modified_isc, c3.CVSS3.compute_modified_isc_30 = b, a


def _m_pr_scope(L):
    import cvss.cvss3 as c3
    from decimal import Decimal as D
    orig = c3.CVSS3.get_value

    def gv(self, abbreviation):
        if abbreviation == "PR" and self.modified_scope == "C" and self.scope == "U":
            return {"N": D("0.85"), "L": D("0.68"), "H": D("0.50")}[self.metrics["PR"]]
        return orig(self, abbreviation)
    c3.CVSS3.get_value = gv


def _m_exp(L):
    import cvss.cvss3 as c3
    from decimal import Decimal as D

    def f(self):
        if self.scope == "U":
            self.isc = D("6.42") * self.isc_base
        else:
            self.isc = D("7.52") * (self.isc_base - D("0.029")) - D("3.25") * (self.isc_base - D("0.02")) ** D("13")
    c3.CVSS3.compute_isc = f


def _m_env_from_base(L):
    import cvss.cvss3 as c3
    orig = c3.CVSS3.compute_modified_esc

    def f(self):
        orig(self)
        self.modified_esc = self.esc if self.metrics.get("MUI") == "R" and self.metrics.get("UI") == "N" else self.modified_esc
    c3.CVSS3.compute_modified_esc = f


def _m_float_scores(L):
    import cvss.cvss3 as c3
    orig = c3.CVSS3.scores
    c3.CVSS3.scores = lambda self: tuple(x + 1e-15 if x == 7.3 else x for x in orig(self))


MUTANTS = {"weight_AC_H_045": _m_weight, "drop_0915_cap": _m_nocap, "round_half_up": _m_halfup,
           "swap_30_31_formulas": _m_swap, "pr_weight_wrong_scope": _m_pr_scope, "base_exponent_13": _m_exp,
           "env_uses_base_esc_one_case": _m_env_from_base, "float_noise_7_3": _m_float_scores}
