"""C02 -- CVSS v4.0 score equals the FIRST macrovector/interpolation algorithm.

Oracle: spec/ref4 (exact Fractions; EQ predicates typed from the specification,
highest-severity vectors and depths derived by enumeration, pinned lookup table).
Monitors:
  score-vs-reference   base_score == ref4(effective assignment)
  attr-vs-scores       scores() == (base_score,), base_score a float
  functional-dep       another spelling of the same effective assignment scores alike
"""
import itertools

from .. import obs
from ..bootstrap import lib
from ..spec import ref4
from ..spec import tables as T
from ..workloads import vectors as V

ORACLES = ("tables", "ref4")
RULE = ("v4 vectors built from own tables; a case is one accepted vector string; distinct = distinct effective "
        "assignments (AV,PR,UI,AC,AT,VC,VI,VA,SC,SI/MSI,SA/MSA,CR,IR,AR,E) or distinct written assignments for the random "
        "spellings; non-trivial = constructed by the library and compared with the exact reference. Quick: every one of "
        "the 270 macrovectors with all its highest-severity vectors, its lowest member and random members; thorough: all "
        "15,116,544 effective assignments.")


def check_vector(P, vec, variants=False, channels=False):
    P.remember({"vector": vec})
    if P.evaluations % 6 == 2:
        # the application first met rejected look-alikes of this very vector (a field repeated verbatim, a field missing,
        # the other letter case): what they leave behind must not change how the vector itself is scored
        f = vec.split("/")
        for bad in ("/".join(f + f[-1:]), "/".join(f[:1] + f), "/".join(f[:-1]), vec.lower(), vec + "/", "/".join(reversed(f + f[:1]))):
            obs.call(lib().CLS["4"], bad)
        P.stratum("rejected-look-alikes-constructed-first")
    L = lib()
    P.evaluations += 1
    ok, o = obs.call(obs.construct, L.CVSS4, vec)
    if not ok:
        P.violation("construct", "C02:exception:" + obs.exc_name(o), {"vector": vec}, error=repr(o))
        return None
    ok, got = obs.call(getattr, o, "base_score")
    if not ok:
        P.violation("score-vs-reference", "C02:base_score-missing", {"vector": vec}, error=repr(got))
        return None
    m = dict(T.parse("4", vec)[1])
    d = {}
    exp = ref4.score_written(m, detail=d)
    P.ev("score-vs-reference")
    bad = False
    if isinstance(got, bool) or not isinstance(got, (int, float)) or got != got or obs.fr(got) != exp:
        bad = True
        zero = "zero-impact" if d.get("zero") else "interpolated"
        P.violation("score-vs-reference", "C02:score-differs-from-specification:" + zero, {"vector": vec},
                    observed=repr(got), expected=float(exp), macrovector=d.get("mv"))
    P.ev("attr-vs-scores")
    ok, sc = obs.call(o.scores)
    if not ok:
        P.violation("attr-vs-scores", "C02:scores-exception:" + obs.exc_name(sc), {"vector": vec}, error=repr(sc))
    elif not (isinstance(sc, tuple) and len(sc) == 1 and type(sc[0]) is float and sc[0] == got):
        P.violation("attr-vs-scores", "C02:scores-differs-from-base_score", {"vector": vec}, observed=repr(sc),
                    base_score=repr(got))
    if channels or P.evaluations % 7 == 3:
        # the same scores from the object obtained another way (a copy, a pickle round trip, from_rh_vector, the extractor)
        how = obs.BUILT[(P.evaluations // 7) % len(obs.BUILT)]
        ok2, o2 = obs.call(obs.build, L, "4", vec, how)
        if ok2 and o2 is not None:
            P.ev("scores-of-object-obtained-otherwise")
            ok2, sc2 = obs.call(o2.scores)
            if not ok2 or sc2 != (got,):
                P.violation("score-channels", "C02:scores-differ-for-the-object-obtained-by:" + how, {"vector": vec}, constructor=repr((got,)), other=repr(sc2))
    if channels or P.evaluations % 5 == 0:
        obs.check_score_channels(P, "C02", o, vec, (got,))
    if "mv" in d:
        P.addset("macrovectors", [d["mv"]])
        pre = d["pre"] * 10 - ref4.F(1, 2)
        dist = abs(pre - round(pre))
        if dist != 0:
            P.setmin("exact_min_distance_to_half_up_tie_tenths", float(dist))
        else:
            P.stratum("exact-half-up-tie")
    else:
        P.stratum("zero-impact-shortcut")
    if variants and not bad:
        for name in ref4.VARIANTS:
            if ref4.score_written(m, variant=name) != exp:
                P.stratum("discriminates:" + name)
    return got


def check_fd(P, spellings):
    first = None
    for s in spellings:
        got = check_vector(P, s)
        if got is None:
            continue
        P.ev("functional-dep")
        if first is None:
            first = (s, got)
        elif got != first[1]:
            P.violation("functional-dep", "C02:same-effective-assignment-different-scores",
                        {"spellings": [first[0], s]}, observed=[repr(first[1]), repr(got)])


def check_case(P, case):
    if "spellings" in case:
        check_fd(P, case["spellings"])
    else:
        check_vector(P, case["vector"], variants=True, channels=True)


def random_spelling(rng, eff):
    """A random concrete spelling of an effective assignment."""
    m = {}
    for k in ("AV", "AC", "AT", "PR", "UI", "VC", "VI", "VA", "SC", "SI", "SA"):
        v = eff[k]
        if v == "S" or rng.random() < 0.3:
            m["M" + k] = v
            m[k] = rng.choice(T.VALUES["4"][k])
        else:
            m[k] = v
            r = rng.random()
            if r < 0.15:
                m["M" + k] = "X"
            elif r < 0.3:
                m["M" + k] = v
    for k in ("CR", "IR", "AR"):
        if eff[k] == "H":
            r = rng.random()
            if r < 0.33:
                m[k] = "X"
            elif r < 0.66:
                m[k] = "H"
        else:
            m[k] = eff[k]
    if eff["E"] == "A":
        r = rng.random()
        if r < 0.33:
            m["E"] = "X"
        elif r < 0.66:
            m["E"] = "A"
    else:
        m["E"] = eff["E"]
    for k in T.SUPPLEMENTAL4:
        if rng.random() < 0.3:
            m[k] = rng.choice(T.VALUES["4"][k])
    return V.spell("CVSS:4.0/", m, "shuffle", rng)


def _hook():
    return obs.MarginHook("cvss.cvss4", "final_rounding", "half")


def shard_macro(P, eq1l, eq2l, nrandom, seed):
    """All macrovectors with these EQ1/EQ2 levels: every highest-severity combination,
    the lowest member, nrandom random members."""
    import random
    rng = random.Random("C02-mv-%s-%s-%s" % (seed, eq1l, eq2l))
    h = _hook()
    for l36 in ref4.MEMBERS["eq36"]:
        for l4 in ref4.MEMBERS["eq4"]:
            for e in "APU":
                lv = {"eq1": (eq1l,), "eq2": (eq2l,), "eq36": l36, "eq4": l4}
                fronts = [ref4.LEVELS[g][lv[g]][0] for g in ("eq1", "eq2", "eq36", "eq4")]
                picks = list(itertools.product(*fronts))
                lows = tuple(max(ref4.MEMBERS[g][lv[g]], key=sum) for g in ("eq1", "eq2", "eq36", "eq4"))
                picks.append(lows)
                for _ in range(nrandom):
                    picks.append(tuple(rng.choice(ref4.MEMBERS[g][lv[g]]) for g in ("eq1", "eq2", "eq36", "eq4")))
                for pk in picks:
                    eff = {"E": e}
                    for g, t in zip(("eq1", "eq2", "eq36", "eq4"), pk):
                        eff.update(ref4.values_of(g, t))
                    vec = V.spell("CVSS:4.0/", V.v4_written_from_effective(eff))
                    P.dist(tuple(sorted(eff.items())))
                    check_vector(P, vec, variants=True)
                    if P.evaluations % 2003 == 1:
                        P.sample({"vector": vec})
    h.report(P, "final_rounding")
    h.remove()


def shard_random(P, idx, n, seed):
    import random
    rng = random.Random("C02-rnd-%s-%s" % (seed, idx))
    h = _hook()
    for j in range(n):
        p, m, s = V.rand_vector(rng, "4", p_opt=rng.choice((0.15, 0.5, 0.9)), p_nd=0.25)
        eff = ref4.effective(m)
        s2 = random_spelling(rng, eff)
        P.dist(tuple(sorted(m.items())))
        check_vector(P, s, variants=True)
        P.evaluations -= 1
        check_fd(P, [s, s2])
        if j % 3001 == 0:
            P.sample({"spellings": [s, s2]})
    # zero-impact shortcut with and without modified overrides
    for j in range(max(20, n // 50)):
        m = {k: rng.choice(T.VALUES["4"][k]) for k in ("AV", "AC", "AT", "PR", "UI")}
        for k in ("VC", "VI", "VA", "SC", "SI", "SA"):
            m[k] = "N"
        r = rng.random()
        if r < 0.4:
            k = rng.choice(("VC", "VI", "VA", "SC", "SI", "SA"))
            m["M" + k] = rng.choice([v for v in T.VALUES["4"]["M" + k] if v not in ("X", "N")])
        elif r < 0.7:
            k = rng.choice(("VC", "VI", "VA", "SC", "SI", "SA"))
            m[k] = rng.choice("HL")
            m["M" + k] = "N"
        for k in ("E", "CR", "IR", "AR"):
            if rng.random() < 0.5:
                m[k] = rng.choice(T.VALUES["4"][k])
        check_vector(P, V.spell("CVSS:4.0/", m, "shuffle", rng), variants=True)
    h.report(P, "final_rounding")
    h.remove()


def shard_sweep(P, av, pr, ui, ac, at):
    """Complete sub-cube of the effective-assignment quotient."""
    h = _hook()
    names = [d[0] for d in V.V4_DIMS]
    pre = [av, pr, ui, ac, at]
    k = 0
    for combo in itertools.product(*[d[1] for d in V.V4_DIMS[5:]]):
        eff = dict(zip(names, pre + list(combo)))
        vec = V.spell("CVSS:4.0/", V.v4_written_from_effective(eff))
        check_vector(P, vec)
        k += 1
        if k % 52501 == 1:
            P.sample({"vector": vec})
    P.distinct_n += k
    h.report(P, "final_rounding")
    h.remove()


def run(R):
    R.rule = RULE
    R.require("score-vs-reference", "attr-vs-scores", "functional-dep")
    R.assumptions = ["the 270-entry macrovector lookup table pinned in spec/lookup4.json is FIRST's table (sha256 recorded; "
                     "cross-checked: monotone along every EQ axis; 1,694 pinned official v4 vectors score identically)",
                     "ref4 derives highest-severity vectors and depths by enumeration of each EQ level; equal severity sums "
                     "of all highest-severity vectors of a level is asserted at import"]
    if R.quick:
        R.pmap("shard_macro", [(a, b, 12, R.seed) for a in (0, 1, 2) for b in (0, 1)])
        R.pmap("shard_random", [(i, 1500, R.seed) for i in range(16)])
    else:
        shards = list(itertools.product(*[d[1] for d in V.V4_DIMS[:5]]))
        R.pmap("shard_sweep", shards)
        R.pmap("shard_macro", [(a, b, 40, R.seed) for a in (0, 1, 2) for b in (0, 1)])
        R.pmap("shard_random", [(i, 12500, R.seed) for i in range(16)])
        R.exhaustive = True
    mvs = R.P.extra.get("macrovectors", set())
    R.coverage_extra["macrovectors_exercised"] = len(mvs)
    if len(mvs) < 270:
        R.inconclusive.append("only %d of 270 macrovectors were exercised" % len(mvs))
    need = ["discriminates:" + v for v in ref4.VARIANTS]
    R.coverage_extra["variants_not_distinguished_by_this_run"] = [v for v in need if R.P.strata.get(v, 0) == 0]


# ---- in-memory seeded faults -------------------------------------------------
def _m_lookup(L):
    import cvss.cvss4 as c4
    c4.CVSS_LOOKUP_GLOBAL["102111"] = c4.CVSS_LOOKUP_GLOBAL["102111"] + 0.1


def _m_depth(L):
    import cvss.cvss4 as c4
    c4.MAX_SEVERITY["eq3eq6"][1][1] = 7


def _m_eps0(L):
    import cvss.cvss4 as c4
    c4.EPSILON = 0


def _m_eps3(L):
    import cvss.cvss4 as c4
    c4.EPSILON = 1e-3


def _m_crM(L):
    import cvss.cvss4 as c4
    orig = c4.CVSS4.m

    def m(self, metric):
        if metric == "CR" and self.metrics.get(metric) == "X":
            return "M"
        return orig(self, metric)
    c4.CVSS4.m = m


def _m_EU(L):
    import cvss.cvss4 as c4
    orig = c4.CVSS4.m

    def m(self, metric):
        if metric == "E" and self.metrics.get(metric) == "X":
            return "U"
        return orig(self, metric)
    c4.CVSS4.m = m


def _m_modVC(L):
    import cvss.cvss4 as c4
    orig = c4.CVSS4.m

    def m(self, metric):
        if metric == "VC":
            return self.metrics.get("VC")
        return orig(self, metric)
    c4.CVSS4.m = m


def _m_maxcomposed(L):
    import cvss.cvss4 as c4
    c4.MAX_COMPOSED["eq3"]["1"]["1"][4] = "VC:L/VI:L/VA:H/CR:H/IR:H/AR:H/"


def _m_zero(L):
    import cvss.cvss4 as c4
    orig = c4.CVSS4.compute_base_score

    def f(self):
        if all(self.metrics.get(k) == "N" for k in ["VC", "VI", "VA", "SC", "SI", "SA"]):
            self.base_score = 0.0
            return
        real = c4.CVSS4.m
        orig(self)
    # zero-impact shortcut tests base metrics instead of effective ones
    def g(self):
        if all(self.metrics.get(k) == "N" for k in ["VC", "VI", "VA", "SC", "SI", "SA"]):
            self.base_score = 0.0
            return
        orig(self)
    c4.CVSS4.compute_base_score = g


MUTANTS = {"lookup_102111_plus01": _m_lookup, "depth_eq3eq6_11_is_7": _m_depth, "epsilon_0": _m_eps0,
           "epsilon_1e-3": _m_eps3, "CR_X_means_M": _m_crM, "E_X_means_U": _m_EU, "MVC_ignored": _m_modVC,
           "max_composed_typo": _m_maxcomposed, "zero_shortcut_on_base_metrics": _m_zero}
