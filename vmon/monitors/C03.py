"""C03 -- CVSS v2 scores equal the CVSS v2 guide equations.

Oracle: spec/ref2 (exact Fractions, round-half-up).  Monitors:
  score-vs-reference   scores() == ref2(metrics as written), incl. None-ness both ways
  attr-vs-scores       score attributes agree with scores()
  functional-dep       other spelling (order, ND written explicitly) scores alike
The guide does not define the rounding of a NEGATIVE exact tie of an intermediate value;
both readings are computed and either accepted (such cases are counted).
"""
import itertools

from .. import obs
from ..bootstrap import lib
from ..spec import ref2
from ..spec import tables as T
from ..workloads import vectors as V

ORACLES = ("tables", "ref2")
SLOTS = ("base", "temporal", "environmental")
RULE = ("v2 vectors built from own tables; a case is one accepted vector string; distinct = distinct metrics-as-written "
        "assignments; non-trivial = constructed by the library and all three score slots (number or None) compared with "
        "the exact reference. Thorough enumerates 729 base x 49 temporal (48 effective + undefined) x 541 environmental "
        "(540 effective + undefined) = 19,325,061 cases.")


def expected(m):
    flag = []
    e1 = ref2.scores(m, "away", flag)
    if flag:
        e2 = ref2.scores(m, "up")
        return e1, e2, True
    return e1, e1, False


def _matches(got, exp):
    for g, e in zip(got, exp):
        if e is None:
            if g is not None:
                return False
        else:
            if g is None or isinstance(g, bool) or not isinstance(g, (int, float)) or obs.fr(g) != e:
                return False
    return True


def check_vector(P, vec, variants=False, channels=False):
    P.remember({"vector": vec})
    if P.evaluations % 6 == 2:
        # the application first met rejected look-alikes of this very vector (a field repeated verbatim, a field missing,
        # the other letter case): what they leave behind must not change how the vector itself is scored
        f = vec.split("/")
        for bad in ("/".join(f + f[-1:]), "/".join(f[:1] + f), "/".join(f[:-1]), vec.lower(), vec + "/", "/".join(reversed(f + f[:1]))):
            obs.call(lib().CLS["2"], bad)
        P.stratum("rejected-look-alikes-constructed-first")
    L = lib()
    P.evaluations += 1
    ok, o = obs.call(obs.construct, L.CVSS2, vec)
    if not ok:
        P.violation("construct", "C03:exception:" + obs.exc_name(o), {"vector": vec}, error=repr(o))
        return None
    ok, got = obs.call(o.scores)
    if not ok:
        P.violation("scores()", "C03:scores-exception:" + obs.exc_name(got), {"vector": vec}, error=repr(got))
        return None
    m = dict(T.parse("2", vec)[1])
    e1, e2, negtie = expected(m)
    P.ev("score-vs-reference")
    if negtie:
        P.stratum("negative-intermediate-tie")
        if e1 != e2:
            P.stratum("negative-tie-readings-differ")
    bad = False
    if not isinstance(got, tuple) or len(got) != 3:
        P.violation("score-vs-reference", "C03:scores-shape", {"vector": vec}, observed=repr(got))
        return None
    if not (_matches(got, e1) or _matches(got, e2)):
        bad = True
        for i, slot in enumerate(SLOTS):
            if not (_matches(got[i:i + 1], e1[i:i + 1]) or _matches(got[i:i + 1], e2[i:i + 1])):
                if (got[i] is None) != (e1[i] is None):
                    key = "C03:%s-score-definedness-wrong" % slot
                else:
                    key = "C03:%s-score-differs-from-guide" % slot
                P.violation("score-vs-reference", key, {"vector": vec}, observed=repr(got),
                            expected=[None if x is None else float(x) for x in e1])
    P.ev("attr-vs-scores")
    for i, slot in enumerate(SLOTS):
        ok2, a = obs.call(getattr, o, slot + "_score")
        if not ok2:
            P.violation("attr-vs-scores", "C03:attribute-missing:" + slot, {"vector": vec}, error=repr(a))
            continue
        try:
            same = (a is None and got[i] is None) or (a is not None and got[i] is not None and float(a) == got[i])
        except Exception:
            same = False
        if not same:
            P.violation("attr-vs-scores", "C03:attribute-differs:" + slot, {"vector": vec}, observed=repr(a),
                        scores=repr(got))
    if channels or P.evaluations % 7 == 3:
        # the same scores from the object obtained another way (a copy, a pickle round trip, from_rh_vector, the extractor)
        how = obs.BUILT[(P.evaluations // 7) % len(obs.BUILT)]
        ok2, o2 = obs.call(obs.build, L, "2", vec, how)
        if ok2 and o2 is not None:
            P.ev("scores-of-object-obtained-otherwise")
            ok2, sc2 = obs.call(o2.scores)
            if not ok2 or sc2 != got:
                P.violation("score-channels", "C03:scores-differ-for-the-object-obtained-by:" + how, {"vector": vec}, constructor=repr(got), other=repr(sc2))
    if channels or P.evaluations % 5 == 0 or (e1[1] is None) != (e1[2] is None):
        obs.check_score_channels(P, "C03", o, vec, got)
    if e1[1] is None:
        P.stratum("temporal-undefined")
    if e1[2] is None:
        P.stratum("environmental-undefined")
    if variants and not bad:
        for name in ref2.VARIANTS:
            if ref2.scores(m, variant=name) != e1:
                P.stratum("discriminates:" + name)
    return got


def check_fd(P, spellings):
    first = None
    for s in spellings:
        got = check_vector(P, s)
        if got is None:
            continue
        P.ev("functional-dep")
        if first is None:
            first = (s, got)
        elif got != first[1]:
            P.violation("functional-dep", "C03:same-assignment-different-scores", {"spellings": [first[0], s]},
                        observed=[repr(first[1]), repr(got)])


def check_case(P, case):
    if "spellings" in case:
        check_fd(P, case["spellings"])
    else:
        check_vector(P, case["vector"], variants=True, channels=True)


def _hook():
    return obs.MarginHook("cvss.cvss2", "round_to_1_decimal", "half")


def _mk(base, t, e):
    m = dict(base)
    if t:
        m.update(zip(("E", "RL", "RC"), t))
    if e:
        m.update(zip(("CDP", "TD", "CR", "IR", "AR"), e))
    return m


def respell(rng, m):
    """Same assignment: shuffled, with undefined optional metrics randomly written ND.
    (Writing ND never changes which groups are defined.)"""
    m2 = dict(m)
    for k in T.OPTIONAL["2"]:
        if k not in m2 and rng.random() < 0.4:
            m2[k] = "ND"
    return V.spell("", m2, "shuffle", rng)


def shard_quick(P, av, ac, seed):
    import random
    rng = random.Random("C03-q-%s-%s-%s" % (seed, av, ac))
    h = _hook()
    for au, c, i, a in itertools.product("MSN", "NPC", "NPC", "NPC"):
        base = {"AV": av, "AC": ac, "Au": au, "C": c, "I": i, "A": a}
        for t in V.V2_TEMPORAL:
            m = _mk(base, t, ())
            s = V.spell("", m)
            P.dist(s)
            if rng.random() < 0.25:
                check_fd(P, [s, respell(rng, m)])
            else:
                check_vector(P, s, variants=True)
        for _ in range(40):
            m = _mk(base, rng.choice(V.V2_TEMPORAL), rng.choice(V.V2_ENV[1:]))
            s = V.spell("", m)
            P.dist(s)
            check_vector(P, s, variants=True)
            if P.evaluations % 5003 == 1:
                P.sample({"vector": s})
    h.report(P, "round_to_1_decimal")
    h.remove()


def shard_random(P, idx, n, seed):
    # odd shards run in a freshly started THREAD: a new thread has its own default decimal
    # context, so a rounding mode configured on the importing thread's context does not apply
    if idx % 2 == 1:
        import threading
        err = []

        def body():
            try:
                _shard_random(P, idx, n, seed)
            except BaseException as e:  # noqa
                err.append(e)
        t = threading.Thread(target=body)
        t.start()
        t.join()
        P.stratum("shards-run-in-a-fresh-thread")
        if err:
            raise err[0]
        return
    _shard_random(P, idx, n, seed)


def _shard_random(P, idx, n, seed):
    import random
    rng = random.Random("C03-rnd-%s-%s" % (seed, idx))
    h = _hook()
    for j in range(n):
        p, m, s = V.rand_vector(rng, "2", p_opt=rng.choice((0.15, 0.5, 0.9)), p_nd=0.3)
        P.dist(tuple(sorted(m.items())))
        check_vector(P, s, variants=True)
        P.evaluations -= 1
        check_fd(P, [s, respell(rng, m)])
        if j % 3001 == 0:
            P.sample({"vector": s})
    # definedness strata: group defined only through an ND-equivalent value; group written entirely as ND
    for j in range(max(30, n // 30)):
        base = {k: rng.choice(T.VALUES["2"][k]) for k in T.MANDATORY["2"]}
        for extra in ({"E": "H", "RL": "U", "RC": "C"}, {"E": "ND", "RL": "ND", "RC": "ND"}, {"E": "H"},
                      {"CDP": "N", "TD": "H", "CR": "M", "IR": "M", "AR": "M"}, {"CDP": "ND", "TD": "ND", "CR": "ND"},
                      {"TD": "H"}, {"CDP": "N"}, {"CR": "M"}, {"TD": "N"}, {"TD": "N", "CDP": "H"}, {"RC": "C", "TD": "ND"}):
            m = dict(base)
            m.update(extra)
            P.stratum("definedness-probe")
            check_vector(P, V.spell("", m, "shuffle", rng), variants=True)
    h.report(P, "round_to_1_decimal")
    h.remove()


def shard_sweep(P, av, ac, au):
    h = _hook()
    k = 0
    for c, i, a in itertools.product("NPC", repeat=3):
        base = {"AV": av, "AC": ac, "Au": au, "C": c, "I": i, "A": a}
        for t in V.V2_TEMPORAL:
            for e in V.V2_ENV:
                vec = V.spell("", _mk(base, t, e))
                check_vector(P, vec)
                k += 1
                if k % 178001 == 1:
                    P.sample({"vector": vec})
    P.distinct_n += k
    h.report(P, "round_to_1_decimal")
    h.remove()


def run(R):
    R.rule = RULE
    R.require("score-vs-reference", "attr-vs-scores", "functional-dep")
    R.assumptions = ["ref2 transcribes the CVSS v2 guide equations and weights correctly (cross-checked on every run "
                     "against 758 pinned official vectors incl. all 729 base vectors)",
                     "rounding of a negative exact tie in an intermediate value is unspecified by the guide: both readings "
                     "accepted"]
    if R.quick:
        R.pmap("shard_quick", [(av, ac, R.seed) for av in "LAN" for ac in "HML"])
        R.pmap("shard_random", [(i, 1900, R.seed) for i in range(16)])
    else:
        R.pmap("shard_sweep", list(itertools.product("LAN", "HML", "MSN")))
        R.pmap("shard_random", [(i, 12500, R.seed) for i in range(16)])
        R.exhaustive = True
    need = ["discriminates:" + v for v in ref2.VARIANTS]
    if R.quick:
        R.coverage_extra["variants_not_distinguished_by_this_run"] = [v for v in need if R.P.strata.get(v, 0) == 0]


# ---- in-memory seeded faults -------------------------------------------------
def _D():
    from decimal import Decimal
    return Decimal


def _m_1176(L):
    import cvss.cvss2 as c2
    D = _D()
    src_orig = c2.CVSS2.base_score_equation

    def f(self, adjusted_impact=False):
        impact = self.adjusted_impact_equation() if adjusted_impact else self.impact_equation()
        ex = D("20") * self.get_value("AV") * self.get_value("AC") * self.get_value("Au")
        fi = D("0") if impact == D("0") else D("1.175")
        return c2.round_to_1_decimal(((D("0.6") * impact) + (D("0.4") * ex) - D("1.5")) * fi)
    c2.CVSS2.base_score_equation = f


def _m_1041(L):
    import cvss.cvss2 as c2
    D = _D()

    def f(self):
        return D("10.4") * (D("1") - (D("1") - self.get_value("C")) * (D("1") - self.get_value("I"))
                            * (D("1") - self.get_value("A")))
    c2.CVSS2.impact_equation = f


def _m_151(L):
    import cvss.cvss2 as c2
    D = _D()
    c2.METRICS_VALUES["CR"]["H"] = D("1.5")


def _m_halfeven(L):
    import cvss.cvss2 as c2
    from decimal import ROUND_HALF_EVEN
    D = _D()
    c2.round_to_1_decimal = lambda value: value.quantize(D("0.1"), rounding=ROUND_HALF_EVEN)


def _m_nomin(L):
    import cvss.cvss2 as c2
    D = _D()

    def f(self):
        return D("10.41") * (D("1") - (D("1") - self.get_value("C") * self.get_value("CR"))
                             * (D("1") - self.get_value("I") * self.get_value("IR"))
                             * (D("1") - self.get_value("A") * self.get_value("AR")))
    c2.CVSS2.adjusted_impact_equation = f


def _m_env_unadj(L):
    import cvss.cvss2 as c2
    orig = c2.CVSS2.temporal_score_equation

    def f(self, adjusted_impact=False):
        return orig(self, adjusted_impact=False)
    c2.CVSS2.temporal_score_equation = f


def _m_temporal_any(L):
    import cvss.cvss2 as c2
    D = _D()

    def f(self):
        if any(self.metrics.get(a, "ND") == "ND" for a in c2.TEMPORAL_METRICS):
            self.temporal_score = None
        else:
            self.temporal_score = max(D("0.0"), self.temporal_score_equation())
    c2.CVSS2.compute_temporal_score = f


def _m_none_as_zero(L):
    import cvss.cvss2 as c2
    orig = c2.CVSS2.scores
    c2.CVSS2.scores = lambda self: tuple(0.0 if x is None else x for x in orig(self))


def _m_in_metrics(L):
    import cvss.cvss2 as c2
    D = _D()

    def f(self):
        if not any(a in self.metrics for a in c2.TEMPORAL_METRICS):
            self.temporal_score = None
        else:
            self.temporal_score = max(D("0.0"), self.temporal_score_equation())
    c2.CVSS2.compute_temporal_score = f


MUTANTS = {"const_1176_to_1175": _m_1176, "const_1041_to_104": _m_1041, "CR_H_151_to_15": _m_151,
           "round_half_even": _m_halfeven, "drop_min10_cap": _m_nomin, "env_from_unadjusted_temporal": _m_env_unadj,
           "temporal_none_uses_any": _m_temporal_any, "none_reported_as_zero": _m_none_as_zero,
           "temporal_defined_by_presence": _m_in_metrics}
