"""C04 -- vector acceptance is exactly the version's grammar; errors follow the taxonomy.

Oracle: spec/tables.classify (own recogniser over own tables).  Every generated string
is fed to ALL THREE classes.  Monitors:
  acceptance           accepted <=> classify == ACCEPT
  error-class          MALFORMED => CVSSnMalformedError, MANDATORY => CVSSnMandatoryError
  hierarchy            nothing outside the CVSSError hierarchy ever escapes; the class
                       hierarchy itself (CVSSError > CVSSnError > specific) is as stated
"""
from .. import obs
from ..bootstrap import lib
from ..spec import tables as T
from ..workloads import vectors as V

ORACLES = ("tables",)
RULE = ("a case is (class, string); strings: valid seeds in random order/spelling, their COMPLETE single-edit "
        "neighbourhood over a 77-symbol hostile alphabet, field-level operations (drop, duplicate, swap, transplant, "
        "case, padding, separators, prefix variants), junk and very long strings; distinct = distinct (class, string); "
        "non-trivial = the real constructor was executed on it and its outcome compared with the recogniser.")


def diagnose(ver, s):
    """First grammar fault of s for version ver (mechanism part of a violation key)."""
    p, body = T.split_prefix(ver, s)
    if p is None:
        return "prefix"
    if body == "":
        return "empty-body"
    seen = set()
    for f in body.split("/"):
        if f == "":
            return "empty-field"
        parts = f.split(":")
        if len(parts) != 2:
            return "field-shape"
        m, v = parts
        if m not in T.VALSET[ver]:
            return "unknown-metric"
        if v not in T.VALSET[ver][m]:
            return "unknown-value"
        if m in seen:
            return "duplicate-metric"
        seen.add(m)
    if any(m not in seen for m in T.MANDATORY[ver]):
        return "mandatory-missing"
    return "valid"


def check_string(P, s, op="?"):
    L = lib()
    for ver in T.VERSIONS:
        P.evaluations += 1
        want = T.classify(ver, s)
        ok, r = obs.call(obs.construct, L.CLS[ver], s)
        P.ev("acceptance")
        P.stratum("v%s:%s" % (ver, want))
        case = {"ver": ver, "string": s, "op": op}
        if ok:
            if want != T.ACCEPT:
                P.violation("acceptance", "C04:v%s:accepted-invalid-string:%s" % (ver, diagnose(ver, s)), case, oracle=want)
            continue
        e = r
        name = obs.exc_name(e)
        P.ev("hierarchy")
        if not isinstance(e, L.CVSSError):
            P.violation("hierarchy", "C04:v%s:foreign-exception:%s" % (ver, name), case, error=repr(e)[:300], oracle=want)
            continue
        if want == T.ACCEPT:
            P.violation("acceptance", "C04:v%s:rejected-valid-vector:%s" % (ver, name), case, error=repr(e)[:300])
            continue
        P.ev("error-class")
        need = L.exc("CVSS%s%sError" % (ver, "Malformed" if want == T.MALFORMED else "Mandatory"))
        if not isinstance(e, need):
            P.violation("error-class", "C04:v%s:%s-raised-as:%s" % (ver, want.lower(), name), case,
                        error=repr(e)[:300], diagnosis=diagnose(ver, s))


def check_case(P, case):
    check_string(P, case["string"], case.get("op", "?"))


def check_hierarchy(P):
    L = lib()
    P.ev("hierarchy")
    E = L.exceptions
    want = [("CVSSError", Exception)]
    for n in "234":
        want.append(("CVSS%sError" % n, "CVSSError"))
        for k in ("MalformedError", "MandatoryError", "RHScoreDoesNotMatch", "RHMalformedError"):
            want.append(("CVSS%s%s" % (n, k), "CVSS%sError" % n))
    for name, parent in want:
        cls = getattr(E, name, None)
        par = parent if not isinstance(parent, str) else getattr(E, parent, None)
        if cls is None or par is None or not (isinstance(cls, type) and issubclass(cls, par)):
            P.violation("hierarchy", "C04:hierarchy:%s-not-under-%s" % (name, parent if isinstance(parent, str) else "Exception"),
                        {"class": name})
    # the package re-exports the same objects
    for name in ("CVSSError", "CVSS2Error", "CVSS3Error", "CVSS4Error"):
        if getattr(L.cvss, name, None) is not getattr(E, name, None):
            P.violation("hierarchy", "C04:hierarchy:package-export-differs:" + name, {"class": name})
    # sibling version errors are unrelated
    for a in "234":
        for b in "234":
            if a != b and issubclass(getattr(E, "CVSS%sMalformedError" % a), getattr(E, "CVSS%sError" % b)):
                P.violation("hierarchy", "C04:hierarchy:cross-version-subclass", {"class": a + b})


def seeds(rng, ver, n):
    out = []
    # minimal, full-defined, full-with-ND, then random
    for p in T.PREFIXES[ver]:
        out.append((p, [(m, T.VALUES[ver][m][0]) for m in T.MANDATORY[ver]]))
    p = T.PREFIXES[ver][-1]
    out.append((p, [(m, T.VALUES[ver][m][-1]) for m in T.ORDER[ver]]))
    out.append((p, [(m, T.VALUES[ver][m][0]) for m in T.ORDER[ver]]))
    while len(out) < n:
        p = V.rand_prefix(rng, ver)
        m = V.rand_metrics(rng, ver, p_opt=rng.choice((0.1, 0.4, 0.8)), p_nd=0.3)
        ks = list(m)
        rng.shuffle(ks)
        out.append((p, [(k, m[k]) for k in ks]))
    return out[:n]


def shard_seed(P, ver, prefix, fields, seed, double_edits):
    import random
    rng = random.Random("C04-%s-%s-%s" % (seed, ver, T.spell(prefix, fields)))
    s = T.spell(prefix, fields)
    P.sample({"string": s, "op": "seed"}, cap=3)
    P.stratum("seed-vectors")
    check_string(P, s, "seed")
    k = 0
    for mstr in V.char_mutants(s):
        check_string(P, mstr, "char-edit")
        k += 1
        if k % 4001 == 0:
            P.sample({"string": mstr, "op": "char-edit"})
    P.stratum("char-edit-mutants", k)
    k2 = 0
    for op, mstr in V.field_mutants(ver, prefix, fields, rng):
        check_string(P, mstr, op)
        P.stratum("fieldop:" + op)
        k2 += 1
    # permutations of the valid vector must stay valid
    for _ in range(10):
        fs = fields[:]
        rng.shuffle(fs)
        check_string(P, T.spell(prefix, fs), "permute")
    # double edits (sampled)
    for _ in range(double_edits):
        t = s
        for _ in range(2):
            i = rng.randrange(len(t) + 1)
            r = rng.random()
            c = rng.choice(V.ALPHABET)
            if r < 0.33 and i < len(t):
                t = t[:i] + t[i + 1:]
            elif r < 0.66 and i < len(t):
                t = t[:i] + c + t[i + 1:]
            else:
                t = t[:i] + c + t[i:]
        check_string(P, t, "double-edit")
    P.distinct_n += 3 * (1 + k + k2 + 10)  # mutants of one seed are distinct by construction (approx.: see rule)


def shard_junk(P, idx, n, seed):
    import random
    rng = random.Random("C04-junk-%s-%s" % (seed, idx))
    for s in V.junk_strings(rng, n):
        P.dist(s)
        check_string(P, s, "junk")
    if idx == 0:
        for ver in T.VERSIONS:
            p = T.PREFIXES[ver][0]
            body = "/".join(m + ":" + T.VALUES[ver][m][0] for m in T.MANDATORY[ver])
            for s in (p + (body + "/") * 20000 + body, p + body + "/" + "A" * 100000, p + body + "/" * 100000,
                      p + body + ":" * 100000, "CVSS:" * 30000, p + body + "/E:" + "X" * 100000):
                P.stratum("long-string")
                check_string(P, s, "long")


def run(R):
    _run(R)
    # coverage-guided fuzzing (atheris/libFuzzer) with the same oracle
    from .. import fuzz
    fuzz.session(R, "C04", R.pick(20000, 1500000), R.pick(4, 16))
    R.require("atheris-executions")


def _run(R):
    R.rule = RULE
    R.require("acceptance", "error-class", "hierarchy")
    R.assumptions = ["the grammar tables of spec/tables.py transcribe the FIRST vector-string grammars (cross-checked against "
                     "the official schema patterns and enums at start-up)", "only str inputs (the property quantifies over "
                     "strings)"]
    check_hierarchy(R.P)
    nseeds = R.pick(40, 1200)
    shards = []
    for ver in T.VERSIONS:
        for p, fields in seeds(R.sub_rng("seeds" + ver), ver, nseeds):
            shards.append((ver, p, fields, R.seed, R.pick(300, 6000)))
    R.pmap("shard_seed", shards)
    R.pmap("shard_junk", [(i, R.pick(400, 150000), R.seed) for i in range(16)])
    for ver in T.VERSIONS:
        for c in (T.ACCEPT, T.MALFORMED, T.MANDATORY_MISSING):
            if R.P.strata.get("v%s:%s" % (ver, c), 0) == 0:
                R.inconclusive.append("no %s case for v%s" % (c, ver))


# ---- in-memory seeded faults -------------------------------------------------
def _patch_parse(ver, transform):
    """Wrap parse_vector of a class so that self.vector is transformed first."""
    L = lib()
    cls = L.CLS[ver]
    orig = cls.parse_vector

    def pv(self):
        keep = self.vector
        self.vector = transform(keep)
        try:
            orig(self)
        finally:
            self.vector = keep
    cls.parse_vector = pv


def _m_trailing(L):
    _patch_parse("3", lambda s: s[:-1] if s.endswith("/") and len(s) > 9 else s)


def _m_strip(L):
    _patch_parse("2", lambda s: "/".join(f.strip() for f in s.split("/")))


def _m_upper(L):
    _patch_parse("4", lambda s: s[:9] + "/".join(f if f.startswith("U:") else f.upper() for f in s[9:].split("/")) if s.startswith("CVSS:4.0/") else s)


def _m_prefix(L):
    _patch_parse("3", lambda s: "CVSS:3.1/" + s[9:] if s.startswith("CVSS:3.") and s[8:9] == "/" and s[7:8].isdigit() else s)


def _m_dup2(L):
    import cvss.cvss2 as c2

    def pv(self):
        if self.vector == "" or self.vector.endswith("/"):
            raise c2.CVSS2MalformedError("x")
        for field in self.vector.split("/"):
            if field == "":
                raise c2.CVSS2MalformedError("x")
            try:
                metric, value = field.split(":")
            except ValueError:
                raise c2.CVSS2MalformedError("x")
            if metric in c2.METRICS_ABBREVIATIONS and value in c2.METRICS_VALUES[metric]:
                self.metrics[metric] = value
            else:
                raise c2.CVSS2MalformedError("x")
    c2.CVSS2.parse_vector = pv


def _m_keyerror(L):
    import cvss.cvss3 as c3
    orig = c3.CVSS3.parse_vector

    def pv(self):
        for field in self.vector.split("/")[1:]:
            if field.count(":") == 1:
                metric, value = field.split(":")
                if value not in c3.METRICS_VALUES[metric]:  # KeyError for unknown metric
                    raise c3.CVSS3MalformedError("x")
        orig(self)
    c3.CVSS3.parse_vector = pv


def _m_v4mand(L):
    import cvss.cvss4 as c4

    def cm(self):
        if any(m not in self.metrics for m in c4.METRICS_MANDATORY):
            raise c4.CVSS4MalformedError("missing")
    c4.CVSS4.check_mandatory = cm


def _m_v4_no_mand(L):
    import cvss.cvss4 as c4
    orig = c4.CVSS4.check_mandatory

    def cm(self):
        try:
            orig(self)
        except c4.CVSS4MandatoryError:
            if "SA" in self.metrics:
                raise
            self.metrics["SA"] = "N"
            orig(self)
    c4.CVSS4.check_mandatory = cm


def _m_hier(L):
    import cvss.exceptions as E

    class CVSS4MalformedError(E.CVSS3Error):
        pass
    E.CVSS4MalformedError = CVSS4MalformedError
    import cvss.cvss4 as c4
    c4.CVSS4MalformedError = CVSS4MalformedError


MUTANTS = {"v3_trailing_slash_stripped": _m_trailing, "v2_fields_stripped": _m_strip, "v4_fields_uppercased": _m_upper,
           "v3_any_minor_digit": _m_prefix, "v2_duplicate_check_removed": _m_dup2, "v3_keyerror_escapes": _m_keyerror,
           "v4_mandatory_raised_as_malformed": _m_v4mand, "v4_missing_SA_defaults_to_N": _m_v4_no_mand,
           "v4_malformed_under_v3_hierarchy": _m_hier}
