"""C05 -- outputs do not depend on field order or on spelling out Not Defined.

Trace monitor keyed by (version tag, assignment-as-defined): the first spelling's record
is the representative; every other spelling must give an identical record (scores,
severities, clean vector with and without prefix, RH vector, sub-vectors), compare equal
both ways and hash equal.
"""
from .. import obs
from ..bootstrap import lib
from ..spec import tables as T
from ..workloads import vectors as V

ORACLES = ("tables",)
RULE = ("a case is (assignment, spelling): the assignment's defined metrics written in some field order with some subset of "
        "the undefined optional metrics written explicitly as Not Defined; distinct = distinct spelling strings; "
        "non-trivial = the spelling differs from the representative and its full observation record was compared.")


def observe(ver, s, reverse=False):
    L = lib()
    o = L.CLS[ver](s)
    if reverse and ver != "4" and len(s) % 4 == 0:
        # the twin as an application may well have got it: out of a text (nothing is judged if the extractor does not
        # return an object built from exactly this string -- that is C13's business)
        o2 = obs.build(L, ver, s, "text")
        if o2 is not None:
            o = o2
    return o, obs.record(ver, o, reverse)


def check_pair(P, ver, rep, s, kind="?"):
    """rep, s: two spellings of the same assignment."""
    P.remember({"ver": ver, "rep": rep, "spelling": s, "kind": kind})
    P.evaluations += 1
    ok, r = obs.call(observe, ver, rep)
    if not ok:
        P.violation("construct", "C05:v%s:exception:%s" % (ver, obs.exc_name(r)), {"ver": ver, "rep": rep, "spelling": rep},
                    error=repr(r))
        return
    o0, r0 = r
    # the twin's accessors are read in the opposite order: "unchanged" holds whatever was read first
    ok, r = obs.call(observe, ver, s, True)
    if not ok:
        P.violation("construct", "C05:v%s:exception:%s" % (ver, obs.exc_name(r)), {"ver": ver, "rep": rep, "spelling": s},
                    error=repr(r))
        return
    o1, r1 = r
    case = {"ver": ver, "rep": rep, "spelling": s, "kind": kind}
    P.ev("record-equal")
    for k in r0:
        if r0[k] != r1[k] or type(r0[k]) is not type(r1[k]):
            P.violation("record-equal", "C05:v%s:%s-depends-on-spelling:%s" % (ver, k, kind.split(":")[0]), case,
                        representative=repr(r0[k]), observed=repr(r1[k]))
    P.ev("eq-hash")
    ok, e = obs.call(lambda: (o0 == o1, o1 == o0, hash(o0) == hash(o1)))
    if not ok:
        P.violation("eq-hash", "C05:v%s:eq-or-hash-raises" % ver, case, error=repr(e))
    else:
        if e[0] is not True or e[1] is not True:
            P.violation("eq-hash", "C05:v%s:equality-depends-on-spelling:%s" % (ver, kind.split(":")[0]), case, observed=repr(e))
        if not e[2]:
            P.violation("eq-hash", "C05:v%s:hash-depends-on-spelling:%s" % (ver, kind.split(":")[0]), case)


def check_case(P, case):
    if "pickled_under_hashseed" in case:
        return  # (needs the producing process: --replay re-runs the shard recorded in the witness)
    check_pair(P, case["ver"], case["rep"], case["spelling"], case.get("kind", "?"))


def spellings_of(rng, ver, prefix, m):
    """(kind, string) spellings of the assignment m (metrics as written)."""
    nd = T.ND[ver]
    out = []
    for ks in V.orderings(m, rng, n_shuffle=6):
        out.append(("order", V.spell(prefix, m, ks)))
    for ks in V.block_orderings(ver, m, rng, 3):
        out.append(("order:groups", V.spell(prefix, m, ks)))
    for i, d in enumerate(V.nd_variants(ver, m, rng, n_random=4)):
        kind = "nd:none" if i == 0 else ("nd:all" if i == 1 else "nd:subset")
        if i >= 2:
            extra = [k for k in d if d[k] == nd]
            if len(extra) == 1:
                kind = "nd:only-" + extra[0]
        out.append((kind, V.spell(prefix, d, "shuffle", rng)))
        if i < 2:
            out.append((kind, V.spell(prefix, d, "official")))
            out.append((kind, V.spell(prefix, d, "reversed")))
    return out


def shard(P, ver, idx, n, seed):
    import random
    rng = random.Random("C05-%s-%s-%s" % (seed, ver, idx))
    pool = V.each_choice(ver) if idx == 0 else []
    for j in range(n):
        prefix = V.rand_prefix(rng, ver)
        if pool:
            m = pool.pop()
        else:
            m = V.rand_metrics(rng, ver, p_opt=rng.choice((0.1, 0.5, 0.9)), p_nd=0.3)
        rep = V.spell(prefix, m)
        seen = {rep}
        for kind, s in spellings_of(rng, ver, prefix, m):
            if s in seen:
                continue
            seen.add(s)
            P.dist(s)
            P.stratum("v%s:%s" % (ver, kind if not kind.startswith("nd:only-") else "nd:single"))
            if kind.startswith("nd:only-"):
                P.addset("nd_toggled_alone_v" + ver, [kind[8:]])
            check_pair(P, ver, rep, s, kind)
        if j % 97 == 0:
            P.sample({"ver": ver, "rep": rep, "spelling": s, "kind": kind})
        if j % 4 == 0:
            # strings outside the grammar (letter case, padding, separators ...) that the constructor ACCEPTS all the same are
            # accepted vectors: the same fields in another order must then be accepted too, with the same outputs
            from . import C18
            for op, ms in V.field_mutants(ver, prefix, T.parse(ver, V.spell(prefix, m, "shuffle", rng))[1], rng):
                if op not in C18.NEAR_OPS and not op.startswith("dup-other-case"):
                    continue
                ok, _o = obs.call(lib().CLS[ver], ms)
                if not ok:
                    P.stratum("near-miss-rejected")
                    continue
                parts = ms.split("/")
                head, fs = ([], parts) if ver == "2" else (parts[:1], parts[1:])
                for _ in range(2):
                    fs2 = list(fs)
                    rng.shuffle(fs2)
                    P.stratum("accepted-near-miss-permuted")
                    check_pair(P, ver, ms, "/".join(head + fs2), "near-miss-accepted:order")


def shard_base_exhaustive(P, ver, part, nparts, shapes, seed):
    """EVERY base assignment of v2 / v3 (v4: a sample) x optional metrics defined one at a
    time x every single Not-Defined toggle and a reversed order: spelling independence is
    also checked on corner vectors (caps, clamps) that random sampling rarely hits."""
    import itertools
    import random
    rng = random.Random("C05-ex-%s-%s-%s" % (seed, ver, part))
    nd = T.ND[ver]
    if ver == "2":
        bases = [dict(zip(T.MANDATORY["2"], c)) for c in itertools.product("LAN", "HML", "MSN", "NPC", "NPC", "NPC")]
    elif ver == "3":
        bases = list(V.v3_base_assignments())
    else:
        bases = [{k: rng.choice(T.VALUES["4"][k]) for k in T.MANDATORY["4"]} for _ in range(2000)]
    opt = T.OPTIONAL[ver]
    for bi, base in enumerate(bases):
        if bi % nparts != part:
            continue
        if ver == "2":  # every (optional metric, defined value) alone, for every base vector
            shapes_ = [(k, v) for k in opt for v in T.VALUES[ver][k] if v != nd]
        else:
            shapes_ = []
            for sh in range(shapes):
                k = opt[(bi + sh) % len(opt)]
                shapes_.append((k, rng.choice([v for v in T.VALUES[ver][k] if v != nd])))
        for k, v in shapes_:
            m = dict(base)
            m[k] = v
            for prefix in T.PREFIXES[ver]:
                rep = V.spell(prefix, m)
                for i, d in enumerate(V.nd_variants(ver, m, rng, n_random=0)):
                    s = V.spell(prefix, d, "official" if i % 2 else "reversed")
                    if s != rep:
                        P.stratum("exhaustive-base:v%s" % ver)
                        check_pair(P, ver, rep, s, "nd:exhaustive-base")
        P.distinct_n += 1


def shard_pickled_twin(P, n, seed, hashseed):
    """An object built, hashed and pickled in another process (other hash seed), unpickled here, against a twin
    built HERE from another spelling of the same assignment: equal, same hash, same record."""
    import base64
    import os
    import pickle
    import random
    import subprocess
    import sys
    from .. import bootstrap
    from . import C07
    env = dict(os.environ)
    env.update({"PYTHONHASHSEED": str(hashseed), "PYTHONDONTWRITEBYTECODE": "1"})
    p = subprocess.run([sys.executable, "-B", "-c", "from vmon.monitors import C07; C07.pickle_child(%r, %d)" % (seed, n)],
                       cwd=bootstrap.VERIF, env=env, stdout=subprocess.PIPE, stderr=subprocess.PIPE, timeout=600)
    if p.returncode != 0:
        P.notes.append("INCONCLUSIVE:pickle child failed: %s" % p.stderr.decode("utf-8", "replace")[-300:])
        return
    L = lib()
    rng = random.Random("C05-pickled-%s" % seed)
    for (ver, s), b in zip(C07.pickled_vectors(seed, n), p.stdout.decode("ascii").split("\n")):
        P.evaluations += 1
        if b.startswith("!"):
            P.stratum("pickling-not-supported")
            continue
        ok, o = obs.call(lambda: pickle.loads(base64.b64decode(b)))
        if not ok or type(o) is not L.CLS[ver]:
            P.stratum("unpickling-not-supported")
            continue
        prefix, fields = T.parse(ver, s)
        s2 = V.spell(prefix, V.nd_variants(ver, dict(fields), rng, 1)[-1], "shuffle", rng)
        case = {"ver": ver, "rep": s, "spelling": s2, "kind": "order", "pickled_under_hashseed": hashseed}
        P.ev("unpickled-vs-twin")
        P.dist(("pickled", ver, s))
        ok, r = obs.call(lambda: (lambda t: (o == t, t == o, hash(o) == hash(t), len({o, t}), obs.record(ver, o) == obs.record(ver, t)))(L.CLS[ver](s2)))
        if not ok:
            P.violation("eq-hash", "C05:v%s:unpickled-object:comparison-raises:%s" % (ver, obs.exc_name(r)), case, error=repr(r))
        elif r != (True, True, True, 1, True):
            names = ["equality", "equality", "hash", "hash", "record"]
            bad = sorted(set(nm for nm, x, w in zip(names, r, (True, True, True, 1, True)) if x != w))
            P.violation("eq-hash", "C05:v%s:%s-depends-on-spelling:unpickled-from-another-process" % (ver, "+".join(bad)), case, observed=repr(r))


def run(R):
    R.rule = RULE
    R.require("record-equal", "eq-hash")
    R.assumptions = ["Not Defined spelled ND (v2) / X (v3, v4); sub-vectors compared for v2/v3 only (v4 has none)"]
    n = R.pick(60, 1900)
    for ver in T.VERSIONS:
        R.pmap("shard", [(ver, i, n, R.seed) for i in range(16)])
    for ver in T.VERSIONS:
        R.pmap("shard_base_exhaustive", [(ver, i, 16, R.pick(1, 6), R.seed) for i in range(16)])
    R.pmap("shard_pickled_twin", [(R.pick(60, 1500), R.seed, hs) for hs in ("12345", "2", "random")])
    for ver in T.VERSIONS:
        got = R.P.extra.get("nd_toggled_alone_v" + ver, set())
        miss = set(T.OPTIONAL[ver]) - got
        if miss:
            R.inconclusive.append("v%s: optional metrics never toggled to Not Defined alone: %s" % (ver, sorted(miss)))


# ---- in-memory seeded faults -------------------------------------------------
def _m_ms_x(L):
    import cvss.cvss3 as c3
    import copy

    def f(self):
        self.original_metrics = copy.copy(self.metrics)
        for a in ["MAV", "MAC", "MPR", "MUI", "MC", "MS", "MI", "MA"]:
            if a not in self.metrics or (self.metrics[a] == "X" and a != "MS"):
                self.metrics[a] = self.metrics[a[1:]]
        if self.metrics.get("MS") == "X":
            self.metrics["MS"] = "U"
    c3.CVSS3.add_missing_optional = f


def _m_e_x(L):
    import cvss.cvss4 as c4
    orig = c4.CVSS4.m

    def m(self, metric):
        if metric == "E" and self.original_metrics.get("E") == "X":
            return "P"
        return orig(self, metric)
    c4.CVSS4.m = m


def _m_v2_in(L):
    import cvss.cvss2 as c2
    from decimal import Decimal as D

    def f(self):
        if not any(a in self.metrics for a in c2.TEMPORAL_METRICS):
            self.temporal_score = None
        else:
            self.temporal_score = max(D("0.0"), self.temporal_score_equation())
    c2.CVSS2.compute_temporal_score = f


def _m_last_field(L):
    import cvss.cvss3 as c3
    orig = c3.CVSS3.parse_vector

    def pv(self):
        orig(self)
        last = self.vector.split("/")[-1]
        if last == "RL:O":
            self.metrics["RL"] = "T"
    c3.CVSS3.parse_vector = pv


def _m_clean_keeps_x(L):
    import cvss.cvss4 as c4
    orig = c4.CVSS4.clean_vector

    def cv(self, output_prefix=True):
        r = orig(self, output_prefix)
        if self.original_metrics.get("MSI") == "X":
            r += "/MSI:X"
        return r
    c4.CVSS4.clean_vector = cv


def _m_hash_raw(L):
    import cvss.cvss2 as c2
    c2.CVSS2.__hash__ = lambda self: hash(self.vector)


MUTANTS = {"v3_MS_X_not_inherited": _m_ms_x, "v4_explicit_E_X_means_P": _m_e_x, "v2_temporal_defined_by_presence": _m_v2_in,
           "v3_last_field_RL_O_misread": _m_last_field, "v4_clean_keeps_MSI_X": _m_clean_keeps_x, "v2_hash_of_raw_string": _m_hash_raw}
