"""C06 -- only effective metric values influence the scores (non-interference).

Metamorphic monitor: scores of a vector vs. scores of its transform.
 (a) ND/absent Modified metric := its base metric's value
 (b) ND/absent metric := the value the specification declares equivalent
 (c) v4 supplemental metrics added / changed / removed
 (d) base metric overridden by a defined Modified metric := any other value
     => v3 environmental score / v4 score unchanged
 (e) v2/v3: temporal+environmental metrics never change the base score, environmental
     metrics never the temporal score
For v2 'every defined score' = slots defined before the transform.
"""
from .. import obs
from ..bootstrap import lib
from ..spec import tables as T
from ..workloads import vectors as V

ORACLES = ("tables",)
RULE = ("a case is (vector, transformed vector, clause, metrics touched); distinct = distinct (vector, transform) pairs; "
        "non-trivial = the transform changed the written vector and the in-scope score slots of both were compared.")


def scores_of(ver, s):
    return lib().CLS[ver](s).scores()


def check_pair(P, ver, s0, s1, clause, touched, slots):
    """slots: indices of scores() that must be unchanged ('defined' = those not None in s0)."""
    P.evaluations += 1
    case = {"ver": ver, "vector": s0, "transformed": s1, "clause": clause, "touched": touched, "slots": list(slots)}
    ok, a = obs.call(scores_of, ver, s0)
    ok2, b = obs.call(scores_of, ver, s1)
    if not ok or not ok2:
        e = a if not ok else b
        P.violation("construct", "C06:v%s:exception:%s" % (ver, obs.exc_name(e)), case, error=repr(e))
        return
    P.ev("noninterference:" + clause)
    tk = "+".join(sorted(touched)) if len(touched) == 1 else "several"
    for i in slots:
        if i >= len(a) or a[i] is None:
            continue
        if a[i] != b[i]:
            P.violation("noninterference:" + clause, "C06:v%s:%s:score[%d]-changed:%s" % (ver, clause, i, tk), case,
                        before=repr(a), after=repr(b))


def check_case(P, case):
    check_pair(P, case["ver"], case["vector"], case["transformed"], case["clause"], case["touched"], case["slots"])


def subsets(rng, items, n_random=4):
    """each singly, all together, random subsets."""
    items = list(items)
    out = [[x] for x in items]
    if len(items) > 1:
        out.append(items)
    for _ in range(n_random):
        s = [x for x in items if rng.random() < 0.5]
        if len(s) > 1 and s != items:
            out.append(s)
    return out


def transforms(rng, ver, prefix, m):
    """Yield (clause, touched, transformed metrics, slots)."""
    nd = T.ND[ver]
    allslots = {"2": (0, 1, 2), "3": (0, 1, 2), "4": (0,)}[ver]
    dfn = {k: v for k, v in m.items() if v != nd}
    # (a)
    if ver in ("3", "4"):
        free = [k for k in T.MODIFIED[ver] if k not in dfn]
        for sub in subsets(rng, free):
            mm = dict(m)
            for k in sub:
                mm[k] = m[T.MODIFIED[ver][k]]
            yield "a", sub, mm, allslots
    # (b)
    free = [k for k in T.ND_EQUIV[ver] if k not in dfn]
    for sub in subsets(rng, free):
        mm = dict(m)
        for k in sub:
            mm[k] = T.ND_EQUIV[ver][k]
        yield "b", sub, mm, allslots
    # (a)+(b) together
    if ver in ("3", "4"):
        mm = dict(m)
        touched = []
        for k in T.OPTIONAL[ver]:
            if k in dfn:
                continue
            if k in T.MODIFIED[ver]:
                mm[k] = m[T.MODIFIED[ver][k]]
                touched.append(k)
            elif k in T.ND_EQUIV[ver]:
                mm[k] = T.ND_EQUIV[ver][k]
                touched.append(k)
        if len(touched) > 1:
            yield "ab", touched, mm, allslots
    # (c)
    if ver == "4":
        for k in T.SUPPLEMENTAL4:
            for v in T.VALUES["4"][k]:
                if m.get(k) != v:
                    mm = dict(m)
                    mm[k] = v
                    yield "c", [k], mm, allslots
            if k in m:
                mm = dict(m)
                del mm[k]
                yield "c", [k], mm, allslots
        for _ in range(3):
            mm = dict(m)
            touched = []
            for k in T.SUPPLEMENTAL4:
                if rng.random() < 0.6:
                    mm[k] = rng.choice(T.VALUES["4"][k])
                    touched.append(k)
                elif k in mm and rng.random() < 0.5:
                    del mm[k]
                    touched.append(k)
            if touched:
                yield "c", touched, mm, allslots
    # (d)
    if ver in ("3", "4"):
        mods = [k for k in T.MODIFIED[ver] if k in dfn]
        slot = (2,) if ver == "3" else (0,)
        for k in mods:
            b = T.MODIFIED[ver][k]
            for v in T.VALUES[ver][b]:
                if v != m[b]:
                    mm = dict(m)
                    mm[b] = v
                    yield "d", [b], mm, slot
        if len(mods) > 1:
            mm = dict(m)
            for k in mods:
                b = T.MODIFIED[ver][k]
                mm[b] = rng.choice(T.VALUES[ver][b])
            yield "d", [T.MODIFIED[ver][k] for k in mods], mm, slot
    # (e)
    if ver in ("2", "3"):
        tmp = T.GROUPS[ver]["temporal"]
        env = T.GROUPS[ver]["environmental"]
        base_only = {k: m[k] for k in T.MANDATORY[ver]}
        yield "e", [k for k in m if k not in base_only], base_only, (0,)
        for _ in range(3):
            mm = dict(base_only)
            for k in tmp + env:
                if rng.random() < 0.6:
                    mm[k] = rng.choice(T.VALUES[ver][k])
            yield "e", [k for k in tmp + env if mm.get(k) != m.get(k)], mm, (0,)
        for k in tmp + env:
            for v in T.VALUES[ver][k]:
                if m.get(k) != v:
                    mm = dict(m)
                    mm[k] = v
                    yield "e", [k], mm, (0,)
        # environmental metrics never change the temporal score (incl. v2 None-ness: slot
        # compared only when defined before)
        no_env = {k: v for k, v in m.items() if k not in env}
        yield "e-temporal", [k for k in m if k in env], no_env, (0, 1)
        for k in env:
            for v in T.VALUES[ver][k]:
                if m.get(k) != v:
                    mm = dict(m)
                    mm[k] = v
                    yield "e-temporal", [k], mm, (0, 1)


def shard(P, ver, idx, n, seed):
    import random
    rng = random.Random("C06-%s-%s-%s" % (seed, ver, idx))
    pool = V.each_choice(ver) if idx == 0 else []
    for j in range(n):
        prefix = V.rand_prefix(rng, ver)
        m = pool.pop() if pool else V.rand_metrics(rng, ver, p_opt=rng.choice((0.1, 0.5, 0.9)), p_nd=0.3)
        s0 = V.spell(prefix, m, "shuffle", rng)
        for clause, touched, mm, slots in transforms(rng, ver, prefix, m):
            s1 = V.spell(prefix, mm, "shuffle" if rng.random() < 0.5 else None, rng)
            P.dist((s0, s1))
            P.stratum("v%s:%s" % (ver, clause))
            for k in touched:
                P.addset("touched_v%s_%s" % (ver, clause.split("-")[0]), [k])
            check_pair(P, ver, s0, s1, clause, touched, slots)
            if P.evaluations % 4999 == 1:
                P.sample({"ver": ver, "vector": s0, "transformed": s1, "clause": clause, "touched": touched, "slots": list(slots)})


def shard_base_exhaustive(P, ver, part, nparts, shapes, seed):
    """EVERY base assignment of v2 / v3 (v4: a stratified sample) x a few shapes of
    partially defined optional groups x all applicable transforms: substitutions are
    checked on corner vectors (caps, clamps) that random sampling rarely hits."""
    import itertools
    import random
    rng = random.Random("C06-ex-%s-%s-%s" % (seed, ver, part))
    nd = T.ND[ver]
    if ver == "2":
        bases = [dict(zip(T.MANDATORY["2"], c)) for c in itertools.product("LAN", "HML", "MSN", "NPC", "NPC", "NPC")]
    elif ver == "3":
        bases = list(V.v3_base_assignments())
    else:
        bases = [{k: rng.choice(T.VALUES["4"][k]) for k in T.MANDATORY["4"]} for _ in range(3000)]
    opt = T.OPTIONAL[ver]
    for bi, base in enumerate(bases):
        if bi % nparts != part:
            continue
        nshapes = len(opt) + 2 if ver == "2" else shapes
        for sh in range(nshapes):
            m = dict(base)
            # one optional metric defined alone (v2: EVERY optional metric in turn, for every
            # base vector; v3/v4: rotating), then random small subsets
            if ver == "2":
                ks = [opt[sh]] if sh < len(opt) else [k for k in opt if rng.random() < 0.3]
                if sh < len(opt):
                    # every defined value of that single metric
                    for v in T.VALUES[ver][opt[sh]]:
                        if v != nd:
                            mv = dict(base)
                            mv[opt[sh]] = v
                            s0 = V.spell("", mv)
                            for clause, touched, mm, slots in transforms(rng, ver, "", mv):
                                if clause == "b":
                                    P.stratum("exhaustive-base:v2:b")
                                    check_pair(P, ver, s0, V.spell("", mm), clause, touched, slots)
                    continue
            else:
                ks = [opt[(bi + sh) % len(opt)]] if sh < max(1, shapes // 2) else [k for k in opt if rng.random() < 0.25]
            for k in ks:
                m[k] = rng.choice([v for v in T.VALUES[ver][k] if v != nd])
            for prefix in T.PREFIXES[ver]:
                s0 = V.spell(prefix, m)
                for clause, touched, mm, slots in transforms(rng, ver, prefix, m):
                    if clause not in ("a", "b", "ab", "d"):
                        continue
                    s1 = V.spell(prefix, mm)
                    P.stratum("exhaustive-base:v%s:%s" % (ver, clause))
                    check_pair(P, ver, s0, s1, clause, touched, slots)
        P.distinct_n += 1


def run(R):
    R.rule = RULE
    need = ["noninterference:" + c for c in ("a", "b", "c", "d", "e", "e-temporal")]
    R.require(*need)
    R.assumptions = ["equivalents of Not Defined as listed in the property (spec/tables.ND_EQUIV)",
                     "v2: a slot is compared when defined before the transform"]
    n = R.pick(90, 4000)
    for ver in T.VERSIONS:
        R.pmap("shard", [(ver, i, n, R.seed) for i in range(16)])
    for ver in T.VERSIONS:
        R.pmap("shard_base_exhaustive", [(ver, i, 16, R.pick(2, 8), R.seed) for i in range(16)])
    # every eligible metric must have been touched by its clause
    want = {("3", "a"): set(T.MODIFIED["3"]), ("4", "a"): set(T.MODIFIED["4"]),
            ("2", "b"): set(T.ND_EQUIV["2"]), ("3", "b"): set(T.ND_EQUIV["3"]), ("4", "b"): set(T.ND_EQUIV["4"]),
            ("4", "c"): set(T.SUPPLEMENTAL4), ("3", "d"): set(T.MODIFIED["3"].values()), ("4", "d"): set(T.MODIFIED["4"].values())}
    for (ver, cl), mets in want.items():
        got = R.P.extra.get("touched_v%s_%s" % (ver, cl), set())
        if mets - got:
            R.inconclusive.append("clause (%s) v%s never touched %s" % (cl, ver, sorted(mets - got)))


# ---- in-memory seeded faults -------------------------------------------------
def _m_sc_base_first(L):
    import cvss.cvss4 as c4
    orig = c4.CVSS4.m

    def m(self, metric):
        if metric == "SC" and self.original_metrics.get("SC") == "H":
            return "H"
        return orig(self, metric)
    c4.CVSS4.m = m


def _m_au_y(L):
    import cvss.cvss4 as c4
    orig = c4.CVSS4.macroVector

    def mv(self):
        r = orig(self)
        if self.metrics.get("AU") == "Y" and r[0] == "1":
            r = "0" + r[1:]
        return r
    c4.CVSS4.macroVector = mv


def _m_rc_nd(L):
    import cvss.cvss2 as c2
    from decimal import Decimal as D
    c2.METRICS_VALUES["RC"]["ND"] = D("0.95")


def _m_cr_x(L):
    import cvss.cvss3 as c3
    from decimal import Decimal as D
    c3.METRICS_VALUES["CR"]["X"] = D("1.5")


def _m_e_x4(L):
    import cvss.cvss4 as c4
    orig = c4.CVSS4.m

    def m(self, metric):
        if metric == "E" and self.metrics.get("E") == "X":
            return "P"
        return orig(self, metric)
    c4.CVSS4.m = m


def _m_temporal_leak(L):
    import cvss.cvss3 as c3
    orig = c3.CVSS3.compute_base_score

    def f(self):
        orig(self)
        if self.metrics.get("RL") == "O" and self.metrics.get("AV") == "P":
            self.base_score = c3.round_up(self.base_score * c3.D("0.95"))
    c3.CVSS3.compute_base_score = f


def _m_env_leak_temporal(L):
    import cvss.cvss2 as c2
    orig = c2.CVSS2.compute_temporal_score

    def f(self):
        orig(self)
        if self.temporal_score is not None and self.metrics.get("TD") == "N":
            self.temporal_score = c2.D("0.0")
    c2.CVSS2.compute_temporal_score = f


def _m_v3_base_after_override(L):
    import cvss.cvss3 as c3
    orig = c3.CVSS3.compute_modified_esc

    def f(self):
        orig(self)
        if self.original_metrics.get("MAC") == "L" and self.original_metrics.get("AC") == "H":
            self.modified_esc = self.modified_esc * c3.D("0.44") / c3.D("0.77")
    c3.CVSS3.compute_modified_esc = f


MUTANTS = {"v4_SC_base_consulted_first": _m_sc_base_first, "v4_AU_Y_bumps_eq1": _m_au_y, "v2_RC_ND_weight_095": _m_rc_nd,
           "v3_CR_X_weight_15": _m_cr_x, "v4_E_X_means_P": _m_e_x4, "v3_temporal_leaks_into_base": _m_temporal_leak,
           "v2_TD_N_zeroes_temporal": _m_env_leak_temporal, "v3_base_AC_consulted_after_override": _m_v3_base_after_override}
