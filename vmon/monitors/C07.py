"""C07 -- clean_vector() is a canonical form; equality and hash are consistent with it.

Monitors:
  clean-structure   postcondition on every clean_vector() call: right prefix (or none),
                    fields == the metrics given a defined value in the input, once each
  order-consistent  trace monitor over ALL emitted clean vectors of a version: once
                    metric a was seen before metric b, b before a is a violation ("one
                    fixed metric order", without pinning WHICH order -- that is C08)
  reparse           cls(clean) == obj, same scores, same clean vector
  eq-oracle         a == b  <=>  same version tag and same defined metric values; then
                    equal hashes / scores / ratings / clean vectors; symmetric;
                    set() collapses exactly the equal ones
  foreign           obj == x is False and does not raise for other versions / types
"""
from .. import obs
from ..bootstrap import lib
from ..spec import tables as T
from ..workloads import vectors as V

ORACLES = ("tables",)
RULE = ("a case is an accepted vector (structure, re-parse, foreign comparisons) or a pair of accepted vectors (equality "
        "oracle); distinct = distinct vectors / pairs; non-trivial = constructed and judged by at least one monitor. Pairs: "
        "same assignment in another spelling, one-metric differences for every metric, Not-Defined-vs-absent, 3.0-vs-3.1 "
        "twins, cross-version, random.")


def split_clean(ver, c, with_prefix=True):
    """(prefix, [fields]) of an emitted clean vector, or None if it has no such shape."""
    p = ""
    if ver != "2" and with_prefix:
        p, body = T.split_prefix(ver, c)
        if p is None:
            return None
    else:
        body = c
    return p, body.split("/") if body != "" else []


def check_object(P, ver, s, order_log=None, built=None):
    """Structure, re-parse and foreign-comparison monitors on one accepted string.
    built: how the judged object is obtained (obs.build): None = the constructor."""
    P.remember({"ver": ver, "vector": s})
    L = lib()
    P.evaluations += 1
    case = {"ver": ver, "vector": s}
    if built:
        case["built"] = built
    ok, o = obs.call(obs.build, L, ver, s, built)
    if not ok:
        P.violation("construct", "C07:v%s:exception:%s" % (ver, obs.exc_name(o)), case, error=repr(o))
        return None
    if o is None:
        P.stratum("object-not-obtainable-by:" + str(built))
        return None
    if built:
        P.stratum("object-obtained-by:" + built)
    prefix, fields = T.parse(ver, s)
    want = sorted(m + ":" + v for m, v in T.defined(ver, fields).items())
    variants = [("clean", lambda: o.clean_vector(), True)]
    if ver != "2":
        variants.append(("clean-prefix-true", lambda: o.clean_vector(output_prefix=True), True))
        variants.append(("clean-noprefix", lambda: o.clean_vector(output_prefix=False), False))
    # the order in which the forms are first requested on an instance must not matter
    k = P.evaluations % 6
    if len(variants) == 3:
        import itertools
        variants = [variants[i] for i in list(itertools.permutations(range(3)))[k]]
        P.stratum("clean-forms-first-call:" + variants[0][0])
    clean = None
    for name, fn, with_prefix in variants:
        ok, c = obs.call(fn)
        P.ev("clean-structure")
        if not ok:
            P.violation("clean-structure", "C07:v%s:%s-raises:%s" % (ver, name, obs.exc_name(c)), case, error=repr(c))
            continue
        if not isinstance(c, str):
            P.violation("clean-structure", "C07:v%s:%s-not-a-string" % (ver, name), case, observed=repr(c))
            continue
        if name == "clean":
            clean = c
        sp = split_clean(ver, c, with_prefix)
        if sp is None or (with_prefix and sp[0] != (prefix if ver != "2" else "")):
            P.violation("clean-structure", "C07:v%s:%s-wrong-prefix" % (ver, name), case, observed=c)
            continue
        if not with_prefix and T.split_prefix(ver, c)[0]:
            P.violation("clean-structure", "C07:v%s:%s-has-prefix" % (ver, name), case, observed=c)
            continue
        got = sp[1]
        if sorted(got) != want:
            extra = sorted(set(got) - set(want))
            missing = sorted(set(want) - set(got))
            nd = T.ND[ver]
            if any(f.endswith(":" + nd) for f in extra):
                why = "keeps-not-defined"
            elif len(got) != len(set(got)):
                why = "repeats-a-field"
            elif missing:
                why = "drops-a-defined-metric"
            else:
                why = "other"
            P.violation("clean-structure", "C07:v%s:%s-fields-wrong:%s" % (ver, name, why), case, observed=c,
                        extra=extra, missing=missing)
            continue
        if order_log is not None:
            ms = [f.split(":")[0] for f in got]
            order_log(ver, ms, s)
    if ver != "2":
        ok, again = obs.call(o.clean_vector)
        if ok and clean is not None and again != clean:
            P.violation("clean-structure", "C07:v%s:clean_vector-changes-between-calls" % ver, case, observed=[clean, again])
    if ver != "2" and clean is not None:
        ok, c2 = obs.call(lambda: o.clean_vector(output_prefix=False))
        if ok and isinstance(c2, str) and clean != prefix + c2:
            P.violation("clean-structure", "C07:v%s:prefixed-and-unprefixed-disagree" % ver, case, observed=[clean, c2])
    # re-parse
    if clean is not None:
        P.ev("reparse")
        ok, o2 = obs.call(L.CLS[ver], clean)
        if not ok:
            P.violation("reparse", "C07:v%s:clean-vector-not-reparsable:%s" % (ver, obs.exc_name(o2)), case, observed=clean,
                        error=repr(o2))
        else:
            ok, r = obs.call(lambda: (o2 == o, o == o2, o2.scores() == o.scores(), o2.clean_vector() == clean,
                                      hash(o2) == hash(o), o2.severities() == o.severities()))
            if not ok:
                P.violation("reparse", "C07:v%s:reparse-comparison-raises" % ver, case, error=repr(r))
            elif not all(x is True for x in r):
                names = ["eq", "eq-sym", "scores", "clean-idempotent", "hash", "severities"]
                bad = [n for n, x in zip(names, r) if x is not True]
                P.violation("reparse", "C07:v%s:reparse-differs:%s" % (ver, "+".join(bad)), case, observed=clean)
    # foreign comparisons
    P.ev("foreign")
    foreign = [s, clean, type(o)] + V.foreign_operands()
    for f in foreign:
        ok, r = obs.call(lambda: (o == f, f == o))
        if not ok:
            P.violation("foreign", "C07:v%s:eq-raises-on-%s" % (ver, type(f).__name__), case, error=repr(r))
        elif r[0] is not False or r[1] is not False:
            P.violation("foreign", "C07:v%s:equals-a-%s" % (ver, type(f).__name__), case, observed=repr(r))
        # the check runs under Python 3, where `!=` is the other face of the same comparison
        ok, r = obs.call(lambda: (o != f, f != o))
        if not ok:
            P.violation("foreign", "C07:v%s:ne-raises-on-%s" % (ver, type(f).__name__), case, error=repr(r))
        elif r[0] is not True or r[1] is not True:
            P.violation("foreign", "C07:v%s:not-unequal-to-a-%s" % (ver, type(f).__name__), case, observed=repr(r))
    ok, r = obs.call(lambda: o == o)
    if not ok or r is not True:
        P.violation("eq-oracle", "C07:v%s:not-reflexive" % ver, case, observed=repr(r))
    return o


_SUBCLASSES = {}


def _trivial_subclass(cls):
    if cls not in _SUBCLASSES:
        _SUBCLASSES[cls] = type(str("My" + cls.__name__), (cls,), {})
    return _SUBCLASSES[cls]


def check_pair(P, va, sa, vb, sb, kind="?"):
    """Equality oracle on two accepted strings (possibly of different versions)."""
    L = lib()
    P.evaluations += 1
    case = {"a": [va, sa], "b": [vb, sb], "kind": kind}
    ok, r = obs.call(lambda: (L.CLS[va](sa), L.CLS[vb](sb)))
    if not ok:
        P.violation("construct", "C07:pair:exception:%s" % obs.exc_name(r), case, error=repr(r))
        return
    a, b = r
    ka = (va,) + T.canon_key(va, sa)
    kb = (vb,) + T.canon_key(vb, sb)
    expect = ka == kb
    P.ev("eq-oracle")
    P.stratum("pair:%s:%s" % (kind, "equal" if expect else "unequal"))
    ok, r = obs.call(lambda: (a == b, b == a))
    if not ok:
        P.violation("eq-oracle", "C07:pair:eq-raises:%s" % kind, case, error=repr(r))
        return
    ab, ba = r
    if ab is not expect or ba is not expect:
        tag = "v%s" % va if va == vb else "cross-version"
        P.violation("eq-oracle", "C07:%s:%s:%s" % (tag, "unequal-but-should-be-equal" if expect else "equal-but-should-differ", kind),
                    case, observed=[repr(ab), repr(ba)], expected=expect)
        return
    ok, r = obs.call(lambda: (a != b, b != a))
    if not ok or r[0] is expect or r[1] is expect or not all(isinstance(x, bool) for x in r):
        P.violation("eq-oracle", "C07:%s:ne-operator-disagrees-with-eq:%s" % ("v%s" % va if va == vb else "cross-version", kind), case,
                    observed=repr(r), eq=expect)
    # the same comparison with b as an instance of a trivial user subclass (`class MyCVSS3(CVSS3): pass` -- an object of
    # the same CVSS version defining the same metric values; Python asks the subclass operand first, whichever side it is on)
    ok, bs = obs.call(lambda: _trivial_subclass(L.CLS[vb])(sb))
    if ok:
        P.ev("eq-subclass-operand")
        ok, r = obs.call(lambda: (a == bs, bs == a, a != bs, bs != a, hash(bs) == hash(b), bs == b, b == bs))
        want = (expect, expect, not expect, not expect, True, True, True)
        if not ok or tuple(r) != want or not all(isinstance(x, bool) for x in r):
            names = ["a==sub", "sub==a", "a!=sub", "sub!=a", "hash(sub)==hash(plain)", "sub==plain", "plain==sub"]
            bad = [n for n, x, w in zip(names, r, want) if x is not w] if ok else ["raises"]
            P.violation("eq-oracle", "C07:%s:instance-of-a-trivial-subclass-compares-differently:%s" % (
                "v%s" % va if va == vb else "cross-version", "+".join(bad)[:80]), case, observed=repr(r), expected=repr(want))
    ok, r = obs.call(lambda: (hash(a), hash(b), len({a, b}), a in {b: 1}))
    if not ok:
        P.violation("eq-oracle", "C07:pair:hash-or-set-raises", case, error=repr(r))
        return
    ha, hb, n, member = r
    if expect:
        if ha != hb:
            P.violation("eq-oracle", "C07:v%s:equal-objects-different-hash:%s" % (va, kind), case)
        if n != 1 or member is not True:
            P.violation("eq-oracle", "C07:v%s:set-does-not-collapse-equal-objects:%s" % (va, kind), case)
        ok, r = obs.call(lambda: (a.scores() == b.scores(), a.severities() == b.severities(), a.clean_vector() == b.clean_vector()))
        if not ok or not all(r):
            P.violation("eq-oracle", "C07:v%s:equal-objects-differ-in-outputs:%s" % (va, kind), case, observed=repr(r))
    else:
        if n != 2 or member is not False:
            P.violation("eq-oracle", "C07:set-collapses-unequal-objects:%s" % kind, case)


def check_case(P, case):
    if "pickled_under_hashseed" in case:
        return  # (needs the producing process: --replay re-runs the shard recorded in the witness)
    if "pair" in case or "a" in case:
        (va, sa), (vb, sb) = case["a"], case["b"]
        check_pair(P, va, sa, vb, sb, case.get("kind", "?"))
    elif "order_pair" in case:
        log = OrderLog(P)
        for s in case["order_pair"]:
            check_object(P, case["ver"], s, log.add)
        log.finish(P)
    else:
        check_object(P, case["ver"], case["vector"], built=case.get("built"))


class OrderLog(object):
    """ordering-consistency trace monitor (per shard; merged and re-checked globally)."""

    def __init__(self, P):
        self.P = P
        self.first = {}  # (ver, a, b) -> example input

    def add(self, ver, ms, example):
        self.P.ev("order-consistent")
        for i in range(len(ms)):
            for j in range(i + 1, len(ms)):
                k = (ver, ms[i], ms[j])
                if k not in self.first:
                    self.first[k] = example

    def finish(self, P):
        P.extra.setdefault("order_pairs", set()).update((k + (ex,)) for k, ex in self.first.items())


def order_verdict(P):
    """Global check over the merged ordered-pair log."""
    seen = {}
    for ver, a, b, ex in sorted(P.extra.get("order_pairs", set())):
        seen.setdefault((ver, a, b), ex)
    npairs = 0
    for (ver, a, b), ex in sorted(seen.items()):
        npairs += 1
        if (ver, b, a) in seen and a < b:
            P.violation("order-consistent", "C07:v%s:metric-order-not-fixed" % ver,
                        {"ver": ver, "order_pair": [ex, seen[(ver, b, a)]]}, metrics=[a, b])
    P.extra.pop("order_pairs", None)
    P.strata["ordered-metric-pairs-observed"] = npairs


def pair_workload(rng, ver, prefix, m):
    """(kind, (verA, strA), (verB, strB)) pairs around assignment m."""
    nd = T.ND[ver]
    s = V.spell(prefix, m, "shuffle", rng)
    out = [("same-other-spelling", (ver, s), (ver, V.spell(prefix, V.nd_variants(ver, m, rng, 1)[-1], "shuffle", rng)))]
    dfn = {k: v for k, v in m.items() if v != nd}
    out.append(("nd-vs-absent", (ver, V.spell(prefix, V.nd_variants(ver, m, rng, 0)[1], "shuffle", rng)), (ver, V.spell(prefix, dfn))))
    # one-metric difference for every metric of the version
    for k in T.ORDER[ver]:
        cur = m.get(k, nd)
        for v in T.VALUES[ver][k]:
            if v != cur:
                mm = dict(m)
                mm[k] = v
                out.append(("one-metric", (ver, s), (ver, V.spell(prefix, mm, "shuffle", rng))))
                break
        if k in dfn and k not in T.MANDATORY[ver]:
            mm = dict(m)
            del mm[k]
            out.append(("metric-removed", (ver, s), (ver, V.spell(prefix, mm))))
    if ver == "3":
        other = "CVSS:3.1/" if prefix == "CVSS:3.0/" else "CVSS:3.0/"
        out.append(("minor-twin", (ver, s), (ver, V.spell(other, m, "shuffle", rng))))
    # cross-version: compare with vectors of the other versions
    for over in T.VERSIONS:
        if over != ver:
            p2, m2, s2 = V.rand_vector(rng, over)
            out.append(("cross-version", (ver, s), (over, s2)))
    p3, m3, s3 = V.rand_vector(rng, ver)
    out.append(("random", (ver, s), (ver, s3)))
    # modified metric equal to base value is still a DEFINED value: differs from absent
    if ver in ("3", "4"):
        free = [k for k in T.MODIFIED[ver] if k not in dfn]
        if free:
            k = rng.choice(free)
            mm = dict(m)
            mm[k] = m[T.MODIFIED[ver][k]]
            out.append(("modified-equals-base", (ver, s), (ver, V.spell(prefix, mm))))
    return out


def shard(P, ver, idx, n, seed):
    import random
    rng = random.Random("C07-%s-%s-%s" % (seed, ver, idx))
    log = OrderLog(P)
    pool = V.each_choice(ver) if idx == 0 else []
    optional = T.OPTIONAL[ver]
    for j in range(n):
        if j == n // 2 and idx % 2 == 0:
            # half-way through, the application uses the library's other entry points (interactive sessions of every
            # version, extraction, Red Hat notation, JSON): the ONE fixed metric order must be the same before and after
            from ..runner import _exercise_entry_points
            _exercise_entry_points()
            P.stratum("other-entry-points-used-half-way-through-the-shard")
        prefix = V.rand_prefix(rng, ver)
        if pool:
            m = pool.pop()
        elif j % 5 == 1:
            # exactly two optional metrics defined: all ordered pairs get observed over time
            m = {k: rng.choice(T.VALUES[ver][k]) for k in T.MANDATORY[ver]}
            for k in rng.sample(optional, 2):
                m[k] = rng.choice([v for v in T.VALUES[ver][k] if v != T.ND[ver]])
        else:
            m = V.rand_metrics(rng, ver, p_opt=rng.choice((0.1, 0.5, 0.9)), p_nd=0.3)
        for sp in (V.spell(prefix, m), V.spell(prefix, m, "reversed"), V.spell(prefix, m, "shuffle", rng)):
            P.dist((ver, sp))
            check_object(P, ver, sp, log.add)
        check_object(P, ver, sp, log.add, built=obs.BUILT[j % len(obs.BUILT)])
        for kind, (va, sa), (vb, sb) in pair_workload(rng, ver, prefix, m):
            P.dist((sa, sb))
            check_pair(P, va, sa, vb, sb, kind)
        if j % 211 == 0:
            P.sample({"ver": ver, "vector": sp})
            P.sample({"a": [va, sa], "b": [vb, sb], "kind": kind})
        # transitivity / set cardinality on a small group
        if j % 7 == 0:
            group = [V.spell(prefix, d, "shuffle", rng) for d in V.nd_variants(ver, m, rng, 2)[:4]]
            p3, m3, s3 = V.rand_vector(rng, ver)
            group.append(s3)
            ok, r = obs.call(lambda: len(set(lib().CLS[ver](g) for g in group)))
            keys = len(set(T.canon_key(ver, g) for g in group))
            P.ev("eq-oracle")
            if not ok or r != keys:
                P.violation("eq-oracle", "C07:v%s:set-cardinality-differs-from-distinct-keys" % ver,
                            {"ver": ver, "group": group}, observed=repr(r), expected=keys)
    log.finish(P)


def replay(R, w):
    case = w["case"]
    if "group" in case:
        ver = case["ver"]
        n = len(set(lib().CLS[ver](g) for g in case["group"]))
        keys = len(set(T.canon_key(ver, g) for g in case["group"]))
        R.P.ev("eq-oracle")
        if n != keys:
            R.P.violation("eq-oracle", w["key"], case, observed=n, expected=keys)
        return
    check_case(R.P, case)
    order_verdict(R.P)


def pickled_vectors(seed, n):
    import random
    rng = random.Random("C07-pickled-%s" % seed)
    out = []
    for ver in T.VERSIONS:
        for _ in range(n):
            p, m, s = V.rand_vector(rng, ver, p_opt=rng.choice((0.0, 0.5, 0.9)))
            out.append((ver, s))
    return out


def pickle_child(seed, n):
    """Runs in ANOTHER process (its own hash seed): builds the objects, uses them the way a producer would
    (hashes them, puts them in a set, reads their accessors) and writes their pickles to stdout."""
    import base64
    import pickle
    import sys
    L = lib()
    out = []
    for ver, s in pickled_vectors(seed, n):
        o = L.CLS[ver](s)
        hash(o)
        len({o, L.CLS[ver](s)})
        o.clean_vector(), o.scores(), o.as_json(sort=True)
        try:
            out.append(base64.b64encode(pickle.dumps(o, 2)).decode("ascii"))
        except Exception as e:
            out.append("!" + repr(e))
    sys.stdout.write("\n".join(out))


def shard_pickled(P, n, seed, hashseed):
    """Equality and hash of an object that was built, hashed and pickled in another process (other hash
    seed) and unpickled here: it must equal, and hash like, the object built here from the same string.
    Pickling or unpickling that raises is not judged (no property promises it)."""
    import base64
    import os
    import pickle
    import subprocess
    import sys
    from .. import bootstrap
    env = dict(os.environ)
    env.update({"PYTHONHASHSEED": str(hashseed), "PYTHONDONTWRITEBYTECODE": "1"})
    p = subprocess.run([sys.executable, "-B", "-c", "from vmon.monitors import C07; C07.pickle_child(%r, %d)" % (seed, n)],
                       cwd=bootstrap.VERIF, env=env, stdout=subprocess.PIPE, stderr=subprocess.PIPE, timeout=600)
    if p.returncode != 0:
        P.notes.append("INCONCLUSIVE:pickle child failed: %s" % p.stderr.decode("utf-8", "replace")[-300:])
        return
    L = lib()
    lines = p.stdout.decode("ascii").split("\n")
    for (ver, s), b in zip(pickled_vectors(seed, n), lines):
        P.evaluations += 1
        if b.startswith("!"):
            P.stratum("pickling-not-supported")
            continue
        ok, o = obs.call(lambda: pickle.loads(base64.b64decode(b)))
        if not ok or type(o) is not L.CLS[ver]:
            P.stratum("unpickling-not-supported")
            continue
        P.ev("unpickled-from-another-process")
        P.dist(("pickled", ver, s))
        case = {"ver": ver, "vector": s, "pickled_under_hashseed": hashseed}
        fresh = L.CLS[ver](s)
        ok, r = obs.call(lambda: (o == fresh, fresh == o, hash(o) == hash(fresh), len({o, fresh}), fresh in {o: 1}, o.clean_vector() == fresh.clean_vector(),
                                  o.scores() == fresh.scores()))
        if not ok:
            P.violation("eq-oracle", "C07:v%s:unpickled-object:comparison-raises:%s" % (ver, obs.exc_name(r)), case, error=repr(r))
        elif r != (True, True, True, 1, True, True, True):
            names = ["eq", "eq-reflected", "hash", "set-size", "dict-membership", "clean_vector", "scores"]
            bad = [nm for nm, x, w in zip(names, r, (True, True, True, 1, True, True, True)) if x != w]
            P.violation("eq-oracle", "C07:v%s:unpickled-object-differs-from-equal-fresh-object:%s" % (ver, "+".join(bad[:2])), case, observed=repr(r))


def run(R):
    _run(R)
    # objects the LIBRARY builds itself (text extractor, from_rh_vector, CLI, the repository's own tests)
    # are judged by the same oracles through icontract contracts attached to the real classes
    from .. import contracts
    contracts.session(R, "C07")
    R.require("contract:clean_vector")


def _run(R):
    R.rule = RULE
    R.require("clean-structure", "order-consistent", "reparse", "eq-oracle", "foreign")
    R.assumptions = ["'one fixed metric order' is judged as consistency of the observed order relation, not against a "
                     "particular order (C08 pins the official order)"]
    n = R.pick(140, 2600)
    for ver in T.VERSIONS:
        R.pmap("shard", [(ver, i, n, R.seed) for i in range(16)])
    R.pmap("shard_pickled", [(R.pick(60, 2000), R.seed, hs) for hs in ("12345", "1", "random")])
    order_verdict(R.P)


# ---- in-memory seeded faults -------------------------------------------------
def _m_hash_raw(L):
    import cvss.cvss3 as c3
    c3.CVSS3.__hash__ = lambda self: hash(self.vector)


def _m_keep_ex(L):
    import cvss.cvss4 as c4
    orig = c4.CVSS4.clean_vector

    def cv(self, output_prefix=True):
        r = orig(self, output_prefix)
        if self.original_metrics.get("E") == "X":
            r += "/E:X"
        return r
    c4.CVSS4.clean_vector = cv


def _m_eq_noprefix(L):
    import cvss.cvss3 as c3

    def eq(self, o):
        if isinstance(o, c3.CVSS3):
            return self.clean_vector(output_prefix=False) == o.clean_vector(output_prefix=False)
        return False
    c3.CVSS3.__eq__ = eq


def _m_input_order(L):
    import cvss.cvss2 as c2

    def cv(self):
        vector = []
        for metric in c2.METRICS_MANDATORY:
            vector.append("{0}:{1}".format(metric, self.metrics[metric]))
        for field in self.vector.split("/"):
            metric, value = field.split(":")
            if metric not in c2.METRICS_MANDATORY and value != "ND":
                vector.append(field)
        return "/".join(vector)
    c2.CVSS2.clean_vector = cv


def _m_eq_raises(L):
    import cvss.cvss4 as c4
    c4.CVSS4.__eq__ = lambda self, o: self.clean_vector() == o.clean_vector()


def _m_eq_scores(L):
    import cvss.cvss2 as c2

    def eq(self, o):
        if isinstance(o, c2.CVSS2):
            return self.scores() == o.scores() and set(self.metrics) == set(o.metrics)
        return False
    c2.CVSS2.__eq__ = eq


def _m_drop_metric(L):
    import cvss.cvss3 as c3
    orig = c3.CVSS3.clean_vector

    def cv(self, output_prefix=True):
        r = orig(self, output_prefix)
        return r.replace("/MS:U", "") if "MC:" not in r else r
    c3.CVSS3.clean_vector = cv


MUTANTS = {"v3_hash_of_raw_string": _m_hash_raw, "v4_clean_keeps_E_X": _m_keep_ex, "v3_eq_ignores_minor_version": _m_eq_noprefix,
           "v2_optional_metrics_in_input_order": _m_input_order, "v4_eq_raises_on_foreign": _m_eq_raises,
           "v2_eq_by_scores": _m_eq_scores, "v3_clean_drops_MS_U_sometimes": _m_drop_metric}
