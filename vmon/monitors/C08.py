"""C08 -- every vector string the library emits is valid for its version.

Postcondition on every emitted string (clean_vector(), vector part of rh_vector(), the
string returned by the interactive builder):
  self-accept        the library's own constructor for that version accepts it
  official-pattern   it matches the vectorString pattern of FIRST's JSON schema for
                     that version (pinned copy) -- for v4.0 this fixes the field order
                     Base, Threat, Environmental, Supplemental
"""
from .. import obs
from ..bootstrap import lib
from ..spec import tables as T
from ..workloads import vectors as V
from ..workloads import dialogue as DLG

ORACLES = ("tables",)
RULE = ("a case is one emitted string together with the input that produced it (an accepted vector in random field order, or "
        "an interactive answer script); distinct = distinct (source, input); non-trivial = the emitted string was judged by "
        "both oracles. Inputs cover no / all / each single / EVERY PAIR of optional metrics defined (a mis-ordered output "
        "always shows a mis-ordered pair) plus random subsets.")


def tag_of(ver, prefix):
    return T.SCHEMA_TAG[prefix if ver != "2" else ""]


def judge(P, ver, prefix, emitted, source, case):
    """Both oracles on one emitted string."""
    L = lib()
    P.ev("self-accept")
    if not isinstance(emitted, str):
        P.violation("self-accept", "C08:v%s:%s:not-a-string" % (ver, source), case, observed=repr(emitted))
        return
    ok, o = obs.call(L.CLS[ver], emitted)
    if not ok:
        P.violation("self-accept", "C08:v%s:%s:rejected-by-own-parser:%s" % (ver, source, obs.exc_name(o)), case,
                    emitted=emitted, error=repr(o))
    P.ev("official-pattern")
    pat = T.official_pattern(tag_of(ver, prefix))
    if pat.match(emitted):
        return
    # mechanism: would the same fields in official order match?
    why = "pattern-mismatch"
    p, body = T.split_prefix(ver, emitted)
    if p is None or (ver != "2" and p != prefix):
        why = "wrong-prefix"
    else:
        try:
            fields = [tuple(f.split(":")) for f in body.split("/")]
            ms = [f[0] for f in fields]
            if all(len(f) == 2 and f[0] in T.VALSET[ver] for f in fields) and len(set(ms)) == len(ms):
                reordered = T.spell(p, sorted(fields, key=lambda f: T.ORDER[ver].index(f[0])))
                if pat.match(reordered):
                    why = "not-in-official-field-order"
        except Exception:
            pass
    P.violation("official-pattern", "C08:v%s:%s:%s" % (ver, source, why), case, emitted=emitted)


def check_vector(P, ver, s, built=None):
    """built: how the judged object is obtained (obs.build): None = the constructor, else from_rh_vector / a copy /
    a pickle round trip / the text extractor -- what such an object emits must be valid just the same."""
    L = lib()
    P.evaluations += 1
    case = {"ver": ver, "vector": s}
    if built:
        case["built"] = built
    ok, o = obs.call(obs.build, L, ver, s, built)
    if not ok:
        P.violation("construct", "C08:v%s:exception:%s" % (ver, obs.exc_name(o)), case, error=repr(o))
        return
    if o is None:
        P.stratum("object-not-obtainable-by:" + str(built))
        return
    if built:
        P.stratum("object-obtained-by:" + built)
    prefix = T.split_prefix(ver, s)[0]
    ok, c = obs.call(o.clean_vector)
    if not ok:
        P.violation("self-accept", "C08:v%s:clean_vector:raises" % ver, case, error=repr(c))
    else:
        judge(P, ver, prefix, c, "clean_vector", case)
    ok, rh = obs.call(o.rh_vector)
    if not ok:
        P.violation("self-accept", "C08:v%s:rh_vector:raises" % ver, case, error=repr(rh))
    elif not isinstance(rh, str) or "/" not in rh:
        P.violation("self-accept", "C08:v%s:rh_vector:no-vector-part" % ver, case, observed=repr(rh))
    else:
        judge(P, ver, prefix, rh.split("/", 1)[1], "rh_vector", case)


PRECALLS = {
    "clean_noprefix": lambda o: o.clean_vector(output_prefix=False),
    "clean_prefix": lambda o: o.clean_vector(output_prefix=True),
    "as_json": lambda o: o.as_json(sort=True, minimal=True),
    "hash_eq": lambda o: (hash(o), o == o),
    "scores": lambda o: (o.scores(), o.severities()),
    "rh": lambda o: o.rh_vector(),
    "subvectors": lambda o: (o.temporal_vector(), o.environmental_vector()),
}


def check_vector_after(P, ver, s, precalls):
    """The strings emitted AFTER other accessors were called on the same instance are
    judged as well (an emitted string must be valid whatever was called before)."""
    L = lib()
    P.evaluations += 1
    case = {"ver": ver, "vector": s, "precalls": precalls}
    ok, o = obs.call(L.CLS[ver], s)
    if not ok:
        return
    for name in precalls:
        if ver == "2" and name in ("clean_noprefix", "clean_prefix"):
            continue
        if ver == "4" and name == "subvectors":
            continue
        obs.call(PRECALLS[name], o)
    prefix = T.split_prefix(ver, s)[0]
    ok, c = obs.call(o.clean_vector)
    if ok:
        judge(P, ver, prefix, c, "clean_vector", case)
    ok, rh = obs.call(o.rh_vector)
    if ok and isinstance(rh, str) and "/" in rh:
        judge(P, ver, prefix, rh.split("/", 1)[1], "rh_vector", case)
    if ver != "2":
        ok, c2 = obs.call(lambda: o.clean_vector(output_prefix=True))
        if ok:
            judge(P, ver, prefix, c2, "clean_vector", case)
    P.stratum("emitted-after-other-accessor-calls")


def check_dialogue(P, vtag, all_metrics, answers, version_arg=None):
    P.evaluations += 1
    ver = DLG.VER_OF[vtag]
    case = {"dialogue": {"version": vtag, "all_metrics": all_metrics, "answers": answers}}
    if DLG.MODES:  # history part of the witness: modes and last sessions run earlier in this process
        case["dialogue"]["modes_before"] = [list(x) for x in DLG.MODES]
        case["dialogue"]["sessions_before"] = [list(x) for x in DLG.RECENT]
    alts = DLG.VERSION_ARG_ALT[vtag]  # 4 == 4.0, 3 == 3.0, 2 == 2.0 denote the same version
    varg = alts[P.evaluations % len(alts)] if version_arg is None else version_arg
    case["dialogue"]["version_arg"] = repr(varg)
    r = DLG.run_dialogue(vtag, all_metrics, answers, version_arg=varg)
    if r["ret"] is None:
        P.stratum("dialogue-incomplete:" + str(r["exc"]))
        return
    judge(P, ver, DLG.PREFIX_OF[vtag], r["ret"], "ask_interactively", case)


def check_case(P, case):
    if "dialogue" in case:
        d = case["dialogue"]
        from . import C16
        for vt, am in d.get("modes_before") or []:
            DLG.run_dialogue(vt, am, C16.probe_answers(vt), limit=100000)
        for vt, am, ans in d.get("sessions_before") or []:
            DLG.run_dialogue(vt, am, ans)
        va = d.get("version_arg")
        check_dialogue(P, d["version"], d["all_metrics"], d["answers"], (float(va) if "." in va else int(va)) if va else None)
    elif "precalls" in case:
        check_vector_after(P, case["ver"], case["vector"], case["precalls"])
    else:
        check_vector(P, case["ver"], case["vector"], case.get("built"))


def optional_shapes(rng, ver, all_values, n_random):
    """Sets of optional metrics to define: none, all, each alone, every pair, random."""
    opt = T.OPTIONAL[ver]
    nd = T.ND[ver]
    shapes = [[], list(opt)] + [[k] for k in opt]
    for i in range(len(opt)):
        for j in range(i + 1, len(opt)):
            shapes.append([opt[i], opt[j]])
    for _ in range(n_random):
        shapes.append([k for k in opt if rng.random() < rng.choice((0.2, 0.5, 0.8))])
    for sh in shapes:
        reps = 2
        if all_values and len(sh) == 2:
            a, b = sh
            combos = [(x, y) for x in T.VALUES[ver][a] if x != nd for y in T.VALUES[ver][b] if y != nd]
        else:
            combos = [None] * reps
        for combo in combos:
            m = {k: rng.choice(T.VALUES[ver][k]) for k in T.MANDATORY[ver]}
            for i, k in enumerate(sh):
                m[k] = combo[i] if combo else rng.choice([v for v in T.VALUES[ver][k] if v != nd])
            # some undefined optional metrics written explicitly as Not Defined
            for k in opt:
                if k not in m and rng.random() < 0.15:
                    m[k] = nd
            yield sh, m


def shard_vectors(P, ver, prefix, all_values, n_random, seed):
    import random
    rng = random.Random("C08-%s-%s-%s" % (seed, ver, prefix))
    for sh, m in optional_shapes(rng, ver, all_values, n_random):
        s = V.spell(prefix, m, "shuffle", rng)
        P.dist((ver, s))
        P.stratum("v%s:optional-defined:%s" % (ver, len(sh) if len(sh) < 3 else "3+"))
        check_vector(P, ver, s)
        names = sorted(PRECALLS)
        check_vector_after(P, ver, s, [rng.choice(names)])
        if rng.random() < 0.3:
            check_vector_after(P, ver, s, [rng.choice(names) for _ in range(rng.randint(2, 4))])
        # the same input, the object obtained in another way (from_rh_vector, a copy, the text extractor ...)
        check_vector(P, ver, s, obs.BUILT[P.evaluations % len(obs.BUILT)])
        # inputs written group by group, with the groups in another order than the official one
        # (all permutations when every optional metric is defined, else two at random)
        for ks in V.block_orderings(ver, m, rng, None if len(sh) == len(T.OPTIONAL[ver]) else 2):
            s2 = V.spell(prefix, m, ks)
            if s2 != s:
                P.dist((ver, s2))
                P.stratum("v%s:input-in-group-blocks" % ver)
                check_vector(P, ver, s2)
                check_vector(P, ver, s2, "from_rh_vector")
        if P.evaluations % 1501 == 1:
            P.sample({"ver": ver, "vector": s})


def shard_dialogue(P, vtag, all_metrics, n, seed):
    import random
    rng = random.Random("C08-dlg-%s-%s-%s" % (seed, vtag, all_metrics))
    ver = DLG.VER_OF[vtag]
    order, probe = DLG.question_order(vtag, all_metrics)
    P.evaluations += 1
    if probe["ret"] is not None:
        from . import C16
        judge(P, ver, DLG.PREFIX_OF[vtag], probe["ret"], "ask_interactively",
              {"dialogue": {"version": vtag, "all_metrics": all_metrics, "answers": C16.probe_answers(vtag)}})
    if order is None or set(order) != DLG.metric_set(vtag, all_metrics):
        P.stratum("dialogue-order-not-usable")
        return
    targets = []
    for m in V.each_choice(ver):
        targets.append(m)
    for _ in range(n):
        targets.append({k: rng.choice(T.VALUES[ver][k]) for k in T.ORDER[ver]})
    # the LONGEST and the shortest vector the builder can return (every metric answered with one of its longest / shortest
    # spellings; Not Defined spelt out and left empty): length limits anywhere between builder and parser show here
    for pick in (max, min):
        for _ in range(6):
            tgt = {}
            for k in T.ORDER[ver]:
                ext = len(pick(T.VALUES[ver][k], key=len))
                tgt[k] = rng.choice([v for v in T.VALUES[ver][k] if len(v) == ext])
            targets.append(tgt)
            P.stratum("dialogue-extreme-length-target")
    for tgt in targets:
        answers = DLG.script_for(order, tgt, rng, noise=0.2, case=rng.choice(("asis", "lower", "upper")), ver=ver)
        P.dist((vtag, all_metrics, tuple(answers)))
        P.stratum("dialogue:%s:%s" % (vtag, "all" if all_metrics else "mandatory"))
        check_dialogue(P, vtag, all_metrics, answers)
        if P.evaluations % 301 == 1:
            P.sample({"dialogue": {"version": vtag, "all_metrics": all_metrics, "answers": answers}})
    # a long run of rejected answers (blank, or the same illegal one) at ONE question -- each question in turn --, then the
    # right answers: whatever the builder returns after giving up, skipping or insisting must still be valid
    for j, q in enumerate(order):
        right = DLG.script_for(order, targets[j % len(targets)])
        bad = "" if T.ND[ver] not in T.VALUES[ver][q] and j % 2 == 0 else "zz"
        P.stratum("dialogue-long-run-of-rejected-answers")
        check_dialogue(P, vtag, all_metrics, right[:j] + [bad] * (60, 260, 1100)[j % 3] + right[j:])
    # end of input at every index: whatever the builder RETURNS must still be valid
    full = DLG.script_for(order, targets[0])
    for i in range(len(full) + 1):
        P.stratum("dialogue-truncated")
        check_dialogue(P, vtag, all_metrics, full[:i])


def run(R):
    _run(R)
    # objects the LIBRARY builds itself (text extractor, from_rh_vector, CLI, the repository's own tests)
    # are judged by the same oracles through icontract contracts attached to the real classes
    from .. import contracts
    contracts.session(R, "C08")
    R.require("contract:clean_vector")


def _run(R):
    R.rule = RULE
    R.require("self-accept", "official-pattern")
    R.assumptions = ["the vectorString patterns of the pinned FIRST schemas encode the official grammar; they use only regex "
                     "constructs with identical ECMA-262 / Python semantics; '$' is evaluated as end of string"]
    shards = []
    for ver in T.VERSIONS:
        for p in T.PREFIXES[ver]:
            for part in range(4):
                shards.append((ver, p, part == 0, R.pick(500, 60000), "%s-%d" % (R.seed, part)))
    R.pmap("shard_vectors", shards)
    R.pmap("shard_dialogue", [(vt, am, R.pick(150, 20000), R.seed) for vt in ("2", "3.0", "3.1", "4") for am in (False, True)])
    for vt in ("2", "3.0", "3.1", "4"):
        for am in ("all", "mandatory"):
            if R.P.strata.get("dialogue:%s:%s" % (vt, am), 0) == 0:
                R.inconclusive.append("no interactive run completed for version %s (%s metrics)" % (vt, am))


# ---- in-memory seeded faults -------------------------------------------------
def _m_v3_prefix(L):
    import cvss.cvss3 as c3
    orig = c3.CVSS3.clean_vector

    def cv(self, output_prefix=True):
        r = orig(self, output_prefix=False)
        return ("CVSS:3.1/" if output_prefix else "") + r
    c3.CVSS3.clean_vector = cv


def _m_interactive_prefix(L):
    import cvss.interactive as it
    orig = it.ask_interactively

    def f(version=3.1, all_metrics=False, no_colors=False):
        r = orig(version, all_metrics, no_colors)
        return r.replace("CVSS:3.0/", "CVSS:3.0", 1) if version == 3.0 else r
    it.ask_interactively = f


def _m_emit_x(L):
    import cvss.cvss3 as c3
    orig = c3.CVSS3.clean_vector

    def cv(self, output_prefix=True):
        r = orig(self, output_prefix)
        if self.original_metrics.get("RC") == "X" and "RL:" in r:
            r = r + "/RC:ND"
        return r
    c3.CVSS3.clean_vector = cv


def _m_v2_order(L):
    import cvss.cvss2 as c2
    orig = c2.CVSS2.clean_vector

    def cv(self):
        r = orig(self).split("/")
        return "/".join(r[:5] + [x.lower() if x == "TD:H" else x for x in r[5:]])
    c2.CVSS2.clean_vector = cv


def _m_v4_swap_two(L):
    import cvss.cvss4 as c4
    orig = c4.CVSS4.clean_vector

    def cv(self, output_prefix=True):
        r = orig(self, output_prefix)
        fs = r.split("/")
        if "RE:H" in fs and "V:C" in fs:
            i, j = fs.index("RE:H"), fs.index("V:C")
            fs[i], fs[j] = fs[j], fs[i]
        return "/".join(fs)
    c4.CVSS4.clean_vector = cv


MUTANTS = {"v3_clean_prefix_always_31": _m_v3_prefix, "interactive_30_prefix_without_slash": _m_interactive_prefix,
           "v3_emits_RC_ND": _m_emit_x, "v2_lowercases_TD_H": _m_v2_order, "v4_swaps_RE_H_and_V_C": _m_v4_swap_two}
