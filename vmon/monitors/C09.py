"""C09 -- scores are well-formed and severity ratings follow the official scale.

Object invariant checked on every constructed object (and again after every accessor in
the sampled 'deep' mode):
  score-wellformed   each score exactly a float, 0.0 <= s <= 10.0, repr has one decimal
                     (rules out 7.300000000000001, -0.0, 10.1, Decimal, int, bool), or
                     None only for a v2 temporal/environmental group with no defined metric
  rating-scale       severities()[i] is the rating the official scale gives score i
                     (own thresholds, spec/severity.py); compared case-insensitively
  rating-agreement   severities(), CVSS4.severity, JSON *Severity fields and the score
                     text of rh_vector() denote the same score/rating
"""
import itertools
import re

from .. import obs
from ..bootstrap import lib
from ..spec import severity
from ..spec import tables as T
from ..workloads import vectors as V

ORACLES = ("tables",)
RULE = ("a case is one accepted vector; distinct = distinct vectors; non-trivial = constructed and its scores/ratings judged. "
        "Evidence lists, per version and score slot, the distinct scores and the band edges actually observed.")
SLOT = ("base", "temporal", "environmental")
SCORE_TXT = re.compile(r"\A(?:\d\.\d|10\.0)\Z")


def group_defined(ver, m, group):
    nd = T.ND[ver]
    return any(m.get(k, nd) != nd for k in T.GROUPS[ver][group])


def check_object(P, ver, s, deep=True, after=None, built=None):
    """after: vectors constructed and serialised in this process just before (kept in the witness);
    built: how the judged object is obtained (obs.build): None = the constructor, else a copy / pickle / ..."""
    P.remember({"ver": ver, "vector": s})
    L = lib()
    P.evaluations += 1
    case = {"ver": ver, "vector": s}
    if after:
        case["after"] = list(after)
    if built:
        case["built"] = built
    ok, o = obs.call(obs.build, L, ver, s, built)
    if not ok:
        P.violation("construct", "C09:v%s:exception:%s" % (ver, obs.exc_name(o)), case, error=repr(o))
        return
    if o is None:
        P.stratum("object-not-obtainable-by:" + str(built))
        return
    if built:
        P.stratum("object-obtained-by:" + built)
    judge_object(P, ver, o, s, deep, case)


def judge_object(P, ver, o, s, deep, case):
    """The invariant proper, on an EXISTING object built from string s (also used as
    icontract class invariant on objects the library builds itself)."""
    ok, sc = obs.call(o.scores)
    if not ok or not isinstance(sc, tuple) or len(sc) != (1 if ver == "4" else 3):
        P.violation("score-wellformed", "C09:v%s:scores-shape" % ver, case, observed=repr(sc))
        return
    m = dict(T.parse(ver, s)[1])
    P.ev("score-wellformed")
    for i, x in enumerate(sc):
        if x is None:
            allowed = ver == "2" and i in (1, 2) and not group_defined("2", m, "temporal" if i == 1 else "environmental")
            if not allowed:
                P.violation("score-wellformed", "C09:v%s:%s-score-is-None" % (ver, SLOT[i]), case, observed=repr(sc))
            else:
                P.stratum("v2:%s-undefined" % SLOT[i])
            continue
        if ver == "2" and i in (1, 2) and not group_defined("2", m, "temporal" if i == 1 else "environmental"):
            P.violation("score-wellformed", "C09:v2:%s-score-reported-for-undefined-group" % SLOT[i], case, observed=repr(sc))
        if not obs.is_wellformed_score(x):
            if type(x) is not float:
                why = "type-" + type(x).__name__
            elif x != x or x < 0 or x > 10:
                why = "out-of-range"
            elif repr(x) == "-0.0":
                why = "negative-zero"
            else:
                why = "more-than-one-decimal"
            P.violation("score-wellformed", "C09:v%s:%s-score-malformed:%s" % (ver, SLOT[i], why), case, observed=repr(sc))
            continue
        P.addset("scores_v%s_%s" % (ver, SLOT[i]), [repr(x)])
    # ratings
    ok, sv = obs.call(o.severities)
    P.ev("rating-scale")
    if not ok or not isinstance(sv, tuple) or len(sv) != len(sc):
        P.violation("rating-scale", "C09:v%s:severities-shape" % ver, case, observed=repr(sv))
        return
    for i, x in enumerate(sc):
        if x is not None and not obs.is_wellformed_score(x):
            continue
        want = severity.rate(ver, x)
        got = sv[i]
        if not isinstance(got, str) or got.upper() != want:
            P.violation("rating-scale", "C09:v%s:%s-rating-wrong:score-band-%s" % (ver, SLOT[i], want), case,
                        score=repr(x), observed=repr(got), expected=want)
        else:
            P.addset("ratings_v%s" % ver, [got])
    if not deep:
        return
    P.ev("rating-agreement")
    if ver == "4":
        ok, a = obs.call(getattr, o, "severity")
        if not ok or a != sv[0]:
            P.violation("rating-agreement", "C09:v4:severity-attribute-differs-from-severities()", case,
                        observed=repr(a), severities=repr(sv))
        ok, b = obs.call(getattr, o, "base_score")
        if not ok or type(b) is not float or b != sc[0]:
            P.violation("rating-agreement", "C09:v4:base_score-attribute-differs-from-scores()", case, observed=repr(b))
    for sort, minimal in ((False, False), (True, True)):
        ok, j = obs.call(o.as_json, sort=sort, minimal=minimal)
        if not ok:
            P.violation("rating-agreement", "C09:v%s:as_json-raises:%s" % (ver, obs.exc_name(j)), case, error=repr(j))
            continue
        for i, (sf, vf) in enumerate(T.SCORE_FIELDS[ver]):
            if vf and vf in j:
                if not isinstance(j[vf], str) or not isinstance(sv[i], str) or j[vf].upper() != sv[i].upper():
                    P.violation("rating-agreement", "C09:v%s:json-%s-differs-from-severities()" % (ver, vf), case,
                                observed=repr(j[vf]), severities=repr(sv))
            if sf in j and sc[i] is not None:
                if type(j[sf]) is not float or j[sf] != sc[i]:
                    P.violation("rating-agreement", "C09:v%s:json-%s-differs-from-scores()" % (ver, sf), case,
                                observed=repr(j[sf]), scores=repr(sc))
    ok, rh = obs.call(o.rh_vector)
    if ok and isinstance(rh, str):
        head = rh.split("/", 1)[0]
        if not SCORE_TXT.match(head) or (obs.is_wellformed_score(sc[0]) and head != repr(sc[0])):
            P.violation("rating-agreement", "C09:v%s:rh-score-text-malformed" % ver, case, observed=rh, scores=repr(sc))
    # invariant still holds after the accessor calls
    ok, sc2 = obs.call(o.scores)
    ok2, sv2 = obs.call(o.severities)
    if not ok or not ok2 or sc2 != sc or sv2 != sv:
        P.violation("rating-agreement", "C09:v%s:scores-or-ratings-change-after-accessors" % ver, case)


def warm(ver, s):
    """Construct and serialise s the way a judged case does (history for the next case)."""
    ok, o = obs.call(lib().CLS[ver], s)
    if ok:
        for sort in (False, True):
            for minimal in (False, True):
                obs.call(o.as_json, sort=sort, minimal=minimal)
        obs.call(o.severities)


def check_case(P, case):
    for s in case.get("after") or []:
        warm(case["ver"], s)
    check_object(P, case["ver"], case["vector"], deep=True, after=case.get("after"), built=case.get("built"))


def check_minor_twin(P, s):
    """The same metrics under the other 3.x minor version, right after s in the same process."""
    other = ("CVSS:3.1/" if s.startswith("CVSS:3.0/") else "CVSS:3.0/") + s[9:]
    P.stratum("v3:minor-version-twin-right-after")
    check_object(P, "3", other, deep=True, after=[s])


def shard_v3(P, minor, av, mode, seed):
    import random
    rng = random.Random("C09-3-%s-%s-%s" % (seed, minor, av))
    prefix = "CVSS:3.%d/" % minor
    k = 0
    for base in V.v3_base_assignments():
        if base["AV"] != av:
            continue
        if mode == "full":
            tsp = V.V3_TEMPORAL_EFFECTIVE
        else:
            tsp = [rng.choice(V.V3_TEMPORAL_SPELLINGS) for _ in range(2)]
        for e, rl, rc in tsp:
            m = dict(base)
            m.update(E=e, RL=rl, RC=rc)
            for _ in range(1 if mode == "full" else 2):
                mm = dict(m)
                for kk in T.GROUPS["3"]["environmental"]:
                    if rng.random() < 0.4:
                        mm[kk] = rng.choice(T.VALUES["3"][kk])
                s = V.spell(prefix, mm)
                k += 1
                check_object(P, "3", s, deep=(k % 7 == 0))
                if k % 7 == 0:
                    check_minor_twin(P, s)
                if k % 11 == 0:
                    check_object(P, "3", s, deep=True, built=obs.BUILT[(k // 11) % len(obs.BUILT)])
    P.distinct_n += k
    P.sample({"ver": "3", "vector": s}, cap=2)


def shard_v2(P, av, ac, mode, seed):
    import random
    rng = random.Random("C09-2-%s-%s-%s" % (seed, av, ac))
    k = 0
    for au, c, i, a in itertools.product("MSN", "NPC", "NPC", "NPC"):
        base = {"AV": av, "AC": ac, "Au": au, "C": c, "I": i, "A": a}
        for t in V.V2_TEMPORAL:
            envs = V.V2_ENV if mode == "full" else [()] + [rng.choice(V.V2_ENV[1:]) for _ in range(6)]
            for e in envs:
                m = dict(base)
                if t:
                    m.update(zip(("E", "RL", "RC"), t))
                if e:
                    m.update(zip(("CDP", "TD", "CR", "IR", "AR"), e))
                s = V.spell("", m)
                k += 1
                check_object(P, "2", s, deep=(k % (97 if mode == "full" else 7) == 0))
    P.distinct_n += k
    P.sample({"ver": "2", "vector": s}, cap=2)


def shard_v4_macro(P, eq1l, eq2l, nrandom, seed):
    import random
    from ..spec import ref4  # workload generator only (members of each macrovector)
    rng = random.Random("C09-4-%s-%s-%s" % (seed, eq1l, eq2l))
    gs = ("eq1", "eq2", "eq36", "eq4")
    k = 0
    for l36 in ref4.MEMBERS["eq36"]:
        for l4 in ref4.MEMBERS["eq4"]:
            for e in "APU":
                lv = {"eq1": (eq1l,), "eq2": (eq2l,), "eq36": l36, "eq4": l4}
                picks = [tuple(ref4.LEVELS[g][lv[g]][0][0] for g in gs), tuple(max(ref4.MEMBERS[g][lv[g]], key=sum) for g in gs)]
                for _ in range(nrandom):
                    picks.append(tuple(rng.choice(ref4.MEMBERS[g][lv[g]]) for g in gs))
                for pk in picks:
                    eff = {"E": e}
                    for g, t in zip(gs, pk):
                        eff.update(ref4.values_of(g, t))
                    s = V.spell("CVSS:4.0/", V.v4_written_from_effective(eff))
                    P.dist(s)
                    k += 1
                    check_object(P, "4", s, deep=(k % 5 == 0))
    P.sample({"ver": "4", "vector": s}, cap=2)


def shard_v4_sweep(P, av, pr, ui, ac, at):
    names = [d[0] for d in V.V4_DIMS]
    k = 0
    for combo in itertools.product(*[d[1] for d in V.V4_DIMS[5:]]):
        eff = dict(zip(names, [av, pr, ui, ac, at] + list(combo)))
        s = V.spell("CVSS:4.0/", V.v4_written_from_effective(eff))
        k += 1
        check_object(P, "4", s, deep=(k % 499 == 0))
    P.distinct_n += k


def shard_random(P, ver, idx, n, seed):
    import random
    rng = random.Random("C09-r-%s-%s-%s" % (seed, ver, idx))
    for j in range(n):
        p, m, s = V.rand_vector(rng, ver, p_opt=rng.choice((0.1, 0.5, 0.9)))
        P.dist(s)
        check_object(P, ver, s, deep=True)
        if j % 2 == 0:
            check_object(P, ver, s, deep=True, built=obs.BUILT[(j // 2) % len(obs.BUILT)])
        if ver == "3" and j % 3 == 0:
            check_minor_twin(P, s)


# Band edges that real vectors reach (established by the exhaustive thorough sweeps on
# the unchanged tree; an edge listed here and NOT observed makes a run inconclusive,
# never violated).  v3 environmental 0.1-0.7 and v3 base/temporal 0.1-1.5 do not occur.
EDGES_REQUIRED = {
    ("2", "base"): ["0.0", "4.0", "6.9", "7.0", "10.0"],  # no v2 base vector scores 3.9 (all 729 enumerated)
    ("2", "temporal"): ["0.0", "3.9", "4.0", "6.9", "7.0", "10.0"],
    ("2", "environmental"): ["0.0", "3.9", "4.0", "6.9", "7.0", "10.0"],
    ("3", "base"): ["0.0", "3.9", "4.0", "6.9", "7.0", "8.9", "9.0", "10.0"],
    ("3", "temporal"): ["0.0", "3.9", "4.0", "6.9", "7.0", "8.9", "9.0", "10.0"],
    ("3", "environmental"): ["0.0", "3.9", "4.0", "6.9", "7.0", "8.9", "9.0", "10.0"],
    ("4", "base"): ["0.0", "0.1", "3.9", "4.0", "6.9", "7.0", "8.9", "9.0", "10.0"],
}


def run(R):
    _run(R)
    # objects the LIBRARY builds itself (text extractor, from_rh_vector, CLI, the repository's own tests)
    # are judged by the same oracles through icontract contracts attached to the real classes
    from .. import contracts
    contracts.session(R, "C09")
    R.require("contract:invariant")


def _run(R):
    R.rule = RULE
    R.require("score-wellformed", "rating-scale", "rating-agreement")
    R.assumptions = ["rating scales: v3/v4 specification qualitative severity rating scale; v2: NVD's Low/Medium/High ranking "
                     "with 'None' for an undefined score (as the property states); ratings compared case-insensitively"]
    mode = "sample" if R.quick else "full"
    R.pmap("shard_v3", [(mi, av, mode, R.seed) for mi in (0, 1) for av in "NALP"])
    R.pmap("shard_v2", [(av, ac, mode, R.seed) for av in "LAN" for ac in "HML"])
    R.pmap("shard_v4_macro", [(a, b, R.pick(6, 30), R.seed) for a in (0, 1, 2) for b in (0, 1)])
    for ver in T.VERSIONS:
        R.pmap("shard_random", [(ver, i, R.pick(400, 6000), R.seed) for i in range(16)])
    if not R.quick:
        R.pmap("shard_v4_sweep", list(itertools.product(*[d[1] for d in V.V4_DIMS[:5]])))
        R.exhaustive = True
    edges = {}
    for (ver, slot), req in EDGES_REQUIRED.items():
        seen = R.P.extra.get("scores_v%s_%s" % (ver, slot), set())
        edges["v%s_%s" % (ver, slot)] = {"distinct_scores": len(seen), "band_edges_seen": [e for e in severity.BAND_EDGES if e in seen]}
        miss = [e for e in req if e not in seen]
        if miss:
            R.inconclusive.append("v%s %s: band edges %s were not observed" % (ver, slot, miss))
    R.coverage_extra["score_coverage"] = edges


# ---- in-memory seeded faults -------------------------------------------------
def _sev_mut(clsname, modname, frm, to):
    def f(L):
        import importlib
        import inspect
        import textwrap
        mod = importlib.import_module(modname)
        cls = getattr(mod, clsname)
        name = "compute_severity" if clsname == "CVSS4" else "severities"
        src = textwrap.dedent(inspect.getsource(getattr(cls, name)))
        assert frm in src, (frm, src)
        src = src.replace(frm, to, 1)
        ns = {}
        exec(src, mod.__dict__, ns)
        setattr(cls, name, ns[name])
    return f


def _m_v4_unrounded(L):
    import cvss.cvss4 as c4
    c4.final_rounding = lambda x: float(x + 1e-7) if abs(x - 7.3) < 0.04 else float(c4.D(x + c4.EPSILON).quantize(c4.D("0.1"), rounding=c4.ROUND_HALF_UP))


def _m_v2_negzero(L):
    import cvss.cvss2 as c2
    orig = c2.CVSS2.scores
    c2.CVSS2.scores = lambda self: tuple(-0.0 if x == 0 and x is not None else x for x in orig(self))


def _m_v3_decimal(L):
    import cvss.cvss3 as c3
    c3.CVSS3.scores = lambda self: (self.base_score, self.temporal_score, self.environmental_score)


def _m_v4_sev_attr(L):
    import cvss.cvss4 as c4
    orig = c4.CVSS4.severities
    c4.CVSS4.severities = lambda self: ("High",) if self.base_score == 9.0 else orig(self)


def _m_json_sev(L):
    import cvss.cvss3 as c3
    orig = c3.CVSS3.as_json

    def f(self, sort=False, minimal=False):
        d = orig(self, sort, minimal)
        if d.get("temporalSeverity") == "CRITICAL" and d.get("temporalScore") == 9.0:
            d["temporalSeverity"] = "HIGH"
        return d
    c3.CVSS3.as_json = f


MUTANTS = {
    "v3_le_89_to_lt": _sev_mut("CVSS3", "cvss.cvss3", 'score <= D("8.9")', 'score < D("8.9")'),
    "v3_le_39_to_lt": _sev_mut("CVSS3", "cvss.cvss3", 'score <= D("3.9")', 'score < D("3.9")'),
    "v3_le_69_to_lt": _sev_mut("CVSS3", "cvss.cvss3", 'score <= D("6.9")', 'score < D("6.9")'),
    "v2_le_39_to_lt": _sev_mut("CVSS2", "cvss.cvss2", 'score <= D("3.9")', 'score < D("3.9")'),
    "v2_le_69_to_lt": _sev_mut("CVSS2", "cvss.cvss2", 'score <= D("6.9")', 'score < D("6.9")'),
    "v4_le_89_to_lt": _sev_mut("CVSS4", "cvss.cvss4", "self.base_score <= 8.9", "self.base_score < 8.9"),
    "v4_le_39_to_lt": _sev_mut("CVSS4", "cvss.cvss4", "self.base_score <= 3.9", "self.base_score < 3.9"),
    "v4_le_69_to_lt": _sev_mut("CVSS4", "cvss.cvss4", "self.base_score <= 6.9", "self.base_score < 6.9"),
    "v4_zero_is_low": _sev_mut("CVSS4", "cvss.cvss4", "self.base_score == 0.0", "self.base_score < 0.0"),
    "v4_unrounded_near_7_3": _m_v4_unrounded, "v2_negative_zero": _m_v2_negzero, "v3_scores_return_decimal": _m_v3_decimal,
    "v4_severities_disagree_at_9_0": _m_v4_sev_attr, "v3_json_temporal_severity_wrong_at_9_0": _m_json_sev,
}
