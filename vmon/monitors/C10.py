"""C10 -- JSON output validates against the official FIRST JSON schema.

Postcondition on as_json(sort, minimal) for all four option pairs: the dictionary,
after json.dumps/json.loads, is validated with jsonschema (draft declared by each schema)
against the PINNED official schema of the object's version.  multipleOf is evaluated in
exact decimal arithmetic (the stock float implementation rejects 0.3).

Each validation error is reduced to a mechanism key (instance path + keyword + offending
literal / confirmation predicate), so that known findings stay narrow.
"""
import decimal
import json

from .. import obs
from ..bootstrap import lib, ensure_deps
from ..spec import tables as T
from ..workloads import vectors as V

ORACLES = ("tables",)
RULE = ("a case is (accepted vector, sort, minimal); distinct = distinct (vector, options); non-trivial = as_json() returned, "
        "survived the JSON round trip and was validated against the pinned FIRST schema. Vectors: each-choice over every "
        "(metric, value) of every version, all/none/single optional metrics, score-0.0 groups, random; random field order.")

_validators = {}


def validator(tag):
    if tag in _validators:
        return _validators[tag]
    ensure_deps()
    import jsonschema

    def exact_multiple_of(v, dB, instance, schema):
        if isinstance(instance, bool) or not isinstance(instance, (int, float)):
            return
        try:
            q = decimal.Decimal(repr(instance)) % decimal.Decimal(repr(dB))
        except Exception:
            q = 1
        if q != 0:
            yield jsonschema.ValidationError("%r is not a multiple of %r" % (instance, dB))

    sch = T.load_schema(tag)
    base = jsonschema.Draft4Validator if "draft-04" in sch.get("$schema", "") else jsonschema.Draft7Validator
    cls = jsonschema.validators.extend(base, {"multipleOf": exact_multiple_of})
    base.check_schema(sch)
    _validators[tag] = cls(sch)
    return _validators[tag]


def error_key(ver, tag, e, doc):
    path = "/".join(str(x) for x in e.absolute_path) or "<root>"
    kw = e.validator
    if kw == "enum" and isinstance(e.instance, str):
        return "%s:enum:%s" % (path, e.instance)
    if kw == "enum":
        return "%s:enum:<%s>" % (path, type(e.instance).__name__)
    if kw == "type":
        return "%s:type:%s" % (path, type(e.instance).__name__)
    if kw == "required":
        missing = [r for r in e.validator_value if r not in (e.instance or {})]
        return "required:%s" % "+".join(missing)
    if kw == "pattern" and path == "vectorString" and isinstance(e.instance, str):
        # confirmation predicate: does the same vector in official field order match?
        s = e.instance
        if T.classify(ver, s) == T.ACCEPT:
            p, fields = T.parse(ver, s)
            if T.official_pattern(tag).match(T.spell(p, sorted(fields, key=lambda f: T.ORDER[ver].index(f[0])))):
                return "vectorString:pattern:echoed-input-not-in-official-order"
        return "vectorString:pattern"
    if kw in ("anyOf", "allOf", "oneOf"):
        # v4: score / severity pairing.  Which pair failed, and would upper-casing the
        # severity repair exactly this failure?
        props = set()
        for sub in e.validator_value:
            props.update(sub.get("properties", {}))
        sev = sorted(p for p in props if p.endswith("Severity"))
        if sev and isinstance(doc.get(sev[0]), str):
            fixed = dict(doc)
            fixed[sev[0]] = doc[sev[0]].upper()
            if fixed != doc and not list(validator(tag).iter_errors(fixed, {kw: e.validator_value})):
                return "%s:rating-not-upper-case" % sev[0]
        return "score-severity-pairing:%s" % "+".join(sorted(props))
    if kw in ("minimum", "maximum", "multipleOf"):
        return "%s:%s" % (path, kw)
    return "%s:%s" % (path, kw)


def check_json(P, ver, prefix, s, sort, minimal, o=None, calls_before=()):
    L = lib()
    P.evaluations += 1
    tag = T.SCHEMA_TAG[prefix if ver != "2" else ""]
    case = {"ver": ver, "vector": s, "sort": sort, "minimal": minimal}
    if calls_before:
        # earlier calls on the SAME object: [sort, minimal] = as_json(); "name" = another accessor (C08.PRECALLS);
        # "mutate:how:sort:minimal" = the caller edited the dictionary that as_json(sort, minimal) had returned
        case["calls_before"] = [list(c) if isinstance(c, (list, tuple)) else c for c in calls_before]
    if o is None:
        ok, o = obs.call(L.CLS[ver], s)
        if not ok:
            P.violation("construct", "C10:v%s:exception:%s" % (tag, obs.exc_name(o)), case, error=repr(o))
            return
    ok, d = obs.call(o.as_json, sort=sort, minimal=minimal)
    if not ok:
        P.violation("schema-valid", "C10:v%s:as_json-raises:%s" % (tag, obs.exc_name(d)), case, error=repr(d))
        return
    judge_doc(P, ver, tag, d, case)
    return d


def apply_call(o, c):
    """Execute one call descriptor (see check_json) on o; returns nothing, never raises."""
    from . import C08
    if isinstance(c, (list, tuple)):
        obs.call(o.as_json, sort=c[0], minimal=c[1])
    elif c.startswith("built:"):
        pass  # (handled by check_case: the object itself is obtained that way)
    elif c.startswith("mutate:"):
        _, how, so, mi = c.split(":")
        ok, d = obs.call(o.as_json, sort=so == "True", minimal=mi == "True")
        if ok and isinstance(d, dict):
            mutate_doc(d, how)
    elif c in C08.PRECALLS:
        obs.call(C08.PRECALLS[c], o)


def mutate_doc(d, how):
    if how == "del-required":
        d.pop("vectorString", None)
        d.pop("baseScore", None)
    elif how == "score-to-text":
        for k in list(d):
            if k.endswith("Score"):
                d[k] = str(d[k])
    elif how == "junk-values":
        for k in list(d):
            d[k] = "x"
    elif how == "clear":
        d.clear()


def judge_doc(P, ver, tag, d, case):
    """Schema validation of one as_json() result (also used as icontract postcondition)."""
    ok, doc = obs.call(lambda: json.loads(json.dumps(d)))
    if not ok:
        P.violation("schema-valid", "C10:v%s:not-json-serialisable:%s" % (tag, obs.exc_name(doc)), case, error=repr(doc))
        return
    P.ev("schema-valid")
    errs = list(validator(tag).iter_errors(doc))
    if not errs:
        P.stratum("v%s:valid-documents" % tag)
        return
    keys = []
    for e in errs:
        k = error_key(ver, tag, e, doc)
        keys.append(k)
        P.violation("schema-valid", "C10:v%s:%s" % (tag, k), case,
                    schema_error=e.message[:300], schema_path="/".join(str(x) for x in e.absolute_schema_path)[:200])
    import collections
    P.extra.setdefault("error_signatures_v" + tag, collections.Counter())[" & ".join(sorted(set(keys)))] += 1


def check_case(P, case):
    ver = case["ver"]
    o = None
    before = case.get("calls_before") or []
    built = [c[6:] for c in before if isinstance(c, str) and c.startswith("built:")]
    if built:
        ok, o = obs.call(obs.build, lib(), ver, case["vector"], built[0])
        if not ok or o is None:
            return
        check_json(P, ver, T.split_prefix(ver, case["vector"])[0], case["vector"], case["sort"], case["minimal"], o, before)
        return
    if before:
        ok, o = obs.call(lib().CLS[ver], case["vector"])
        if not ok:
            o = None
        else:
            for c in before:
                apply_call(o, c)
    check_json(P, ver, T.split_prefix(ver, case["vector"])[0], case["vector"], case["sort"], case["minimal"], o, before)


def vectors_for(rng, ver, n):
    """(prefix, metrics) workload."""
    out = []
    for p in T.PREFIXES[ver]:
        for m in V.each_choice(ver):
            out.append((p, m))
        out.append((p, {k: T.VALUES[ver][k][0] for k in T.MANDATORY[ver]}))
        for k in T.OPTIONAL[ver]:
            for v in T.VALUES[ver][k]:
                m = {kk: rng.choice(T.VALUES[ver][kk]) for kk in T.MANDATORY[ver]}
                m[k] = v
                out.append((p, m))
    # groups scoring 0.0
    out.append(("", {"AV": "N", "AC": "L", "Au": "N", "C": "P", "I": "P", "A": "P", "TD": "N", "CDP": "H"}) if ver == "2" else
               (T.PREFIXES[ver][0], dict({k: T.VALUES[ver][k][0] for k in T.MANDATORY[ver]})))
    if ver == "2":
        out.append(("", {"AV": "L", "AC": "H", "Au": "M", "C": "N", "I": "N", "A": "N", "E": "U", "TD": "L"}))
    if ver == "3":
        for p in T.PREFIXES["3"]:
            out.append((p, {"AV": "N", "AC": "L", "PR": "N", "UI": "N", "S": "U", "C": "N", "I": "N", "A": "N", "E": "U", "MC": "H"}))
            out.append((p, {"AV": "N", "AC": "L", "PR": "N", "UI": "N", "S": "U", "C": "H", "I": "H", "A": "H", "MC": "N", "MI": "N", "MA": "N"}))
    if ver == "4":
        z = {k: T.VALUES["4"][k][0] for k in ("AV", "AC", "AT", "PR", "UI")}
        z.update({k: "N" for k in ("VC", "VI", "VA", "SC", "SI", "SA")})
        out.append(("CVSS:4.0/", z))
    out.extend(corner_family(ver))
    while len(out) < n:
        out.append((V.rand_prefix(rng, ver), V.rand_metrics(rng, ver, p_opt=rng.choice((0.1, 0.5, 0.9)), p_nd=0.3)))
    return out


def corner_family(ver):
    """Systematic low / high score corners: least and most exploitable base metrics x all
    impact combinations x requirement / distribution extremes (scores near 0 and 10,
    where clamps and caps are active)."""
    import itertools
    out = []
    if ver == "2":
        for ex in ({"AV": "L", "AC": "H", "Au": "M"}, {"AV": "N", "AC": "L", "Au": "N"}):
            for c, i, a in itertools.product("NPC", repeat=3):
                for cr, ir, ar in itertools.product(("L", None, "H"), repeat=3):
                    for td in (None, "L", "H"):
                        m = dict(ex, C=c, I=i, A=a)
                        for k, v in (("CR", cr), ("IR", ir), ("AR", ar), ("TD", td)):
                            if v:
                                m[k] = v
                        if len(m) > 6:
                            out.append(("", m))
    elif ver == "3":
        for p in T.PREFIXES["3"]:
            for ex in ({"AV": "P", "AC": "H", "PR": "H", "UI": "R"}, {"AV": "N", "AC": "L", "PR": "N", "UI": "N"}):
                for sc in "UC":
                    for c, i, a in itertools.product("HLN", repeat=3):
                        for req in ("L", "H"):
                            m = dict(ex, S=sc, C=c, I=i, A=a, CR=req, IR=req, AR=req, E="U", RL="O", RC="U")
                            out.append((p, m))
    else:
        for ex in ({"AV": "P", "AC": "H", "AT": "P", "PR": "H", "UI": "A"}, {"AV": "N", "AC": "L", "AT": "N", "PR": "N", "UI": "N"}):
            for vc, vi, va in itertools.product("HLN", repeat=3):
                for sub in ("N", "L", "H"):
                    for e in ("U", "A"):
                        m = dict(ex, VC=vc, VI=vi, VA=va, SC=sub, SI=sub, SA=sub, E=e, CR="L", IR="L", AR="L")
                        out.append(("CVSS:4.0/", m))
    return out


def shard(P, ver, idx, nshards, n, seed):
    import random
    rng = random.Random("C10-%s-%s" % (seed, ver))
    work = vectors_for(rng, ver, n)
    rng2 = random.Random("C10-%s-%s-%s" % (seed, ver, idx))
    for j, (p, m) in enumerate(work):
        if j % nshards != idx:
            continue
        spellings = [(p, "official"), (p, "shuffle")]
        if ver == "3":
            # the 3.0 / 3.1 twin with the SAME metrics right afterwards in the same process
            spellings.append(("CVSS:3.1/" if p == "CVSS:3.0/" else "CVSS:3.0/", "official"))
        for p, order in spellings:
            s = V.spell(p, m, order, rng2)
            ok, o = obs.call(lib().CLS[ver], s)
            if not ok:
                P.violation("construct", "C10:v%s:exception:%s" % (ver, obs.exc_name(o)), {"ver": ver, "vector": s,
                            "sort": False, "minimal": False}, error=repr(o))
                continue
            before = []
            if j % 3 == 1:
                # other accessors used on the object first (a document must be valid whatever was read before)
                from . import C08
                for name in rng2.sample(sorted(C08.PRECALLS), rng2.randint(1, 3)):
                    apply_call(o, name)
                    before.append(name)
                P.stratum("other-accessors-before-as_json")
            for sort in (False, True):
                for minimal in (False, True):
                    P.dist((s, sort, minimal))
                    P.stratum("v%s:%s:sort=%s:minimal=%s" % (ver, "official-order" if order == "official" else "random-order", sort, minimal))
                    d = check_json(P, ver, p, s, sort, minimal, o, tuple(before))
                    before.append((sort, minimal))
                    if j % 3 == 2 and isinstance(d, dict):
                        # the caller edits the dictionary it got; the next document of the same kind is judged
                        how = ("del-required", "score-to-text", "junk-values", "clear")[(j // 3 + len(before)) % 4]
                        mutate_doc(d, how)
                        before[-1] = "mutate:%s:%s:%s" % (how, sort, minimal)
                        P.stratum("caller-edited-the-previous-document")
                        check_json(P, ver, p, s, sort, minimal, o, tuple(before))
                        before.append((sort, minimal))
        if j % 5 == 0:
            # the document of the object obtained another way (a copy, a pickle round trip, from_rh_vector, the extractor)
            s0 = V.spell(p, m, "shuffle", rng2)
            how = obs.BUILT[(j // 5) % len(obs.BUILT)]
            ok, o3 = obs.call(obs.build, lib(), ver, s0, how)
            if ok and o3 is not None:
                P.stratum("object-obtained-by:" + how)
                check_json(P, ver, p, s0, bool(j % 2), bool(j % 3 == 0), o3, ("built:" + how,))
        if j % 23 == 0:
            # near-misses of this vector (padding, case, separators ...): whatever the constructor
            # ACCEPTS is an accepted vector and its JSON must validate as well
            fields = T.parse(ver, s)[1]
            for op, ms in V.field_mutants(ver, p, fields, rng2):
                if op in ("pad", "lower", "upper", "lower-all", "upper-all", "space-end", "space-start", "tab-end", "newline-end",
                          "newline-start", "trailing-slash", "leading-slash", "double-slash", "nul-end", "prefix-variant"):
                    ok, o2 = obs.call(lib().CLS[ver], ms)
                    if ok:
                        P.stratum("accepted-near-miss-judged")
                        # schema of the version the STRING claims (a prefix variant may be a valid
                        # vector of the other minor version); the original one if it claims none
                        p2 = T.split_prefix(ver, ms.strip())[0]
                        check_json(P, ver, p2 if p2 is not None else p, ms, True, False, o2)
        if j % 499 == 0:
            P.sample({"ver": ver, "vector": s, "sort": True, "minimal": False})


def run(R):
    _run(R)
    # objects the LIBRARY builds itself (text extractor, from_rh_vector, CLI, the repository's own tests)
    # are judged by the same oracles through icontract contracts attached to the real classes
    from .. import contracts
    contracts.session(R, "C10")
    R.require("contract:as_json")


def _run(R):
    R.rule = RULE
    R.require("schema-valid")
    R.assumptions = ["pinned copies of FIRST's cvss-v2.0/3.0/3.1/4.0 JSON schemas (sha256 in DESIGN.md); jsonschema's "
                     "Draft4/Draft7 validators; multipleOf evaluated in exact decimal"]
    n = R.pick(1500, 120000)
    for ver in T.VERSIONS:
        R.pmap("shard", [(ver, i, 16, n, R.seed) for i in range(16)])
    for tag in ("2.0", "3.0", "3.1"):
        if R.P.strata.get("v%s:valid-documents" % tag, 0) == 0:
            R.inconclusive.append("no valid document observed for schema %s" % tag)


# ---- in-memory seeded faults -------------------------------------------------
def _m_misspelt(L):
    import cvss.cvss3 as c3
    c3.METRICS_VALUE_NAMES["E"]["P"] = "Proof-of-Concepts"


def _m_score_str(L):
    import cvss.cvss2 as c2
    orig = c2.CVSS2.as_json

    def f(self, sort=False, minimal=False):
        d = orig(self, sort, minimal)
        d["baseScore"] = str(d["baseScore"])
        return d
    c2.CVSS2.as_json = f


def _m_v2_version(L):
    import cvss.cvss2 as c2
    orig = c2.CVSS2.as_json

    def f(self, sort=False, minimal=False):
        d = orig(self, sort, minimal)
        d["version"] = "2"
        return d
    c2.CVSS2.as_json = f


def _m_missing_key(L):
    import cvss.cvss3 as c3
    orig = c3.CVSS3.as_json

    def f(self, sort=False, minimal=False):
        d = orig(self, sort, minimal)
        if minimal and sort:
            d.pop("baseSeverity", None)
        return d
    c3.CVSS3.as_json = f


def _m_v31_as_30(L):
    import cvss.cvss3 as c3
    orig = c3.CVSS3.as_json

    def f(self, sort=False, minimal=False):
        d = orig(self, sort, minimal)
        d["version"] = "3.0"
        return d
    c3.CVSS3.as_json = f


def _m_decimal(L):
    import cvss.cvss3 as c3
    orig = c3.CVSS3.as_json

    def f(self, sort=False, minimal=False):
        d = orig(self, sort, minimal)
        if "temporalScore" in d:
            d["temporalScore"] = self.temporal_score
        return d
    c3.CVSS3.as_json = f


def _m_v4_wrong_band(L):
    import cvss.cvss4 as c4
    orig = c4.CVSS4.as_json

    def f(self, sort=False, minimal=False):
        d = orig(self, sort, minimal)
        if d["baseScore"] == 7.0:
            d["baseSeverity"] = "Medium"
        return d
    c4.CVSS4.as_json = f


def _m_v4_enum(L):
    import cvss.cvss4 as c4
    c4.METRICS_VALUE_NAMES["PR"]["L"] = "Lo"


MUTANTS = {"v3_enum_misspelt_E_P": _m_misspelt, "v2_baseScore_as_string": _m_score_str, "v2_version_2": _m_v2_version,
           "v3_sorted_minimal_drops_baseSeverity": _m_missing_key, "v3_version_always_30": _m_v31_as_30,
           "v3_temporalScore_decimal": _m_decimal, "v4_wrong_band_at_7_0": _m_v4_wrong_band, "v4_enum_PR_L_misspelt": _m_v4_enum}
