"""C11 -- JSON output is faithful to the object; sort and minimal only reorder / omit.

Postcondition on as_json(sort, minimal), all four option pairs:
  identity        vectorString == the string supplied; version denotes the input's version
  scores          every score/severity field present equals the defined score / its rating
  metric-fields   every metric field (found through spec/tables.JSON_KEYS) decodes, through
                  the independent name table, to the value EFFECTIVE for that metric
  sort            sort=True: keys ascending and same items as unsorted
  minimal         minimal=True: subset of the full result; only whole temporal /
                  environmental groups removed; never a base field; never a group in
                  which some metric was given a defined value
"""
from .. import obs
from ..bootstrap import lib
from ..spec import severity
from ..spec import tables as T
from ..workloads import vectors as V
from . import C10

ORACLES = ("tables",)
RULE = ("a case is an accepted vector; for it all four (sort, minimal) results are obtained and judged; distinct = distinct "
        "vectors; non-trivial = all five monitors evaluated. Workload as C10 plus groups whose score is 0.0 and every single "
        "optional metric defined alone.")


def find_key(ver, metric, d):
    for k in T.JSON_KEYS[ver][metric]:
        if k in d:
            return k
    return None


def removable_keys(ver, full):
    """{group: [keys of the full result belonging to that removable group]}"""
    out = {}
    for g, (mets, fields) in T.MINIMAL_GROUPS[ver].items():
        ks = [find_key(ver, m, full) for m in mets]
        ks = [k for k in ks if k] + [f for f in fields if f in full]
        out[g] = ks
    return out


_HELD = []  # the documents of the vector judged before this one in this process: (case, options, live document, snapshot)


def _snapshot(d):
    try:
        return [(k, repr(v)) for k, v in d.items()]
    except Exception:
        return None


def check_vector(P, ver, s, copies=False):
    P.remember({"ver": ver, "vector": s})
    L = lib()
    P.evaluations += 1
    case = {"ver": ver, "vector": s}
    ok, o = obs.call(L.CLS[ver], s)
    if not ok:
        P.violation("construct", "C11:v%s:exception:%s" % (ver, obs.exc_name(o)), case, error=repr(o))
        return
    prefix, fields = T.parse(ver, s)
    m = dict(fields)
    eff = T.effective(ver, m)
    nd = T.ND[ver]
    ok, sc = obs.call(o.scores)
    if not ok:
        P.violation("scores", "C11:v%s:scores-raises" % ver, case, error=repr(sc))
        return
    res = {}
    snaps = {}
    for sort in (False, True):
        for minimal in (False, True):
            ok, d = obs.call(o.as_json, sort=sort, minimal=minimal)
            if not ok:
                P.violation("identity", "C11:v%s:as_json-raises:%s" % (ver, obs.exc_name(d)), dict(case, sort=sort, minimal=minimal),
                            error=repr(d))
                return
            if not isinstance(d, dict):
                P.violation("identity", "C11:v%s:as_json-not-a-dict" % ver, case, observed=repr(type(d)))
                return
            res[(sort, minimal)] = d
            snaps[(sort, minimal)] = _snapshot(d)
    # a document handed out stays what it was: neither the later calls on this object nor the documents of the NEXT
    # vector constructed in this process may change it (it would then describe another input than the one it was asked for)
    P.ev("documents-stay-as-handed-out")
    for key, d in res.items():
        if snaps[key] is not None and _snapshot(d) != snaps[key]:
            P.violation("identity", "C11:v%s:document-changed-by-a-later-call-on-the-same-object" % ver, dict(case, sort=key[0], minimal=key[1]),
                        handed_out=repr(snaps[key])[:300], now=repr(_snapshot(d))[:300])
    for (pcase, pkey, pdoc, psnap) in _HELD:
        if psnap is not None and _snapshot(pdoc) != psnap:
            P.violation("identity", "C11:v%s:document-of-an-earlier-object-changed-by-later-calls-on-another-object" % pcase["ver"],
                        dict(pcase, sort=pkey[0], minimal=pkey[1], then_constructed=[ver, s]), handed_out=repr(psnap)[:300],
                        now=repr(_snapshot(pdoc))[:300])
            break
    del _HELD[:]
    _HELD.extend((case, key, d, _snapshot(d)) for key, d in res.items())
    for (sort, minimal), d in res.items():
        c = dict(case, sort=sort, minimal=minimal)
        judge_single(P, ver, s, prefix, m, eff, sc, d, sort, minimal, c)
    judge_relations(P, ver, m, sc, res, case)
    # the options given positionally (as the signature allows) mean the same as given by keyword -- asked twice,
    # a deprecation path may behave differently the second time
    P.ev("positional-options")
    for rnd in (1, 2):
        for (sort, minimal), d in res.items():
            ok, d2 = obs.call(o.as_json, sort, minimal)
            if not ok or not isinstance(d2, dict) or dict(d2) != dict(d) or (sort and list(d2) != list(d)):
                P.violation("sort", "C11:v%s:as_json-options-given-positionally-differ-from-keywords" % ver, dict(case, sort=sort, minimal=minimal),
                            call="as_json(%r, %r), call %d" % (sort, minimal, rnd), positional=repr(d2)[:300])
                break
    if copies or P.evaluations % 4 == 0:
        judge_copies(P, ver, o, res, case)


def _copies():
    import copy
    import pickle
    return [("copy.copy", copy.copy), ("copy.deepcopy", copy.deepcopy)] + \
        [("pickle-%d" % pr, (lambda pr: lambda o: pickle.loads(pickle.dumps(o, pr)))(pr)) for pr in (2, pickle.HIGHEST_PROTOCOL)]


def judge_copies(P, ver, o, res, case):
    """A copy of the object (copy / deepcopy / pickle round trip) is still 'the object built from the
    supplied string': its JSON must be identical.  Copying that RAISES is not judged -- no property
    promises that the objects can be copied."""
    for name, fn in _copies():
        ok, o2 = obs.call(fn, o)
        if not ok or type(o2) is not type(o):
            P.stratum("copy-not-supported:" + name)
            continue
        P.ev("copies")
        for (sort, minimal), d in res.items():
            ok, d2 = obs.call(o2.as_json, sort=sort, minimal=minimal)
            if not ok:
                P.violation("copies", "C11:v%s:as_json-of-a-copy-raises:%s" % (ver, name.split("-")[0]), dict(case, copy=name), error=repr(d2))
                break
            if d2 != d or list(d2) != list(d):
                bad = [k for k in d if k not in d2 or d2[k] != d[k]] or ["key-order"]
                P.violation("copies", "C11:v%s:as_json-of-a-copy-differs:%s:%s" % (ver, name.split("-")[0], bad[0]), dict(case, copy=name),
                            original=d.get(bad[0]) if bad[0] in d else None, copied=d2.get(bad[0]) if isinstance(d2, dict) else repr(d2))
                break


def judge_single(P, ver, s, prefix, m, eff, sc, d, sort, minimal, c):
    """identity / scores / metric-fields monitors on ONE as_json() result (also used as
    icontract postcondition)."""
    nd = T.ND[ver]
    if True:
        # identity
        P.ev("identity")
        if d.get("vectorString") != s:
            P.violation("identity", "C11:v%s:vectorString-is-not-the-supplied-string" % ver, c, observed=repr(d.get("vectorString")))
        want_version = {"": ["2.0"], "CVSS:3.0/": ["3.0"], "CVSS:3.1/": ["3.1"], "CVSS:4.0/": ["4.0", "4"]}[prefix if ver != "2" else ""]
        if d.get("version") not in want_version:
            P.violation("identity", "C11:v%s:version-field-wrong" % ver, c, observed=repr(d.get("version")), expected=want_version)
        # scores
        P.ev("scores")
        for i, (sf, vf) in enumerate(T.SCORE_FIELDS[ver]):
            if sf in d and sc[i] is not None:
                if isinstance(d[sf], bool) or not isinstance(d[sf], (int, float)) or d[sf] != sc[i]:
                    P.violation("scores", "C11:v%s:%s-differs-from-score" % (ver, sf), c, observed=repr(d[sf]), score=repr(sc[i]))
            if vf and vf in d and sc[i] is not None:
                if not isinstance(d[vf], str) or d[vf].upper() != severity.rate(ver, sc[i]):
                    P.violation("scores", "C11:v%s:%s-is-not-the-rating-of-the-score" % (ver, vf), c, observed=repr(d[vf]),
                                score=repr(sc[i]))
            if not minimal and sf not in d and i == 0:
                P.violation("scores", "C11:v%s:%s-missing" % (ver, sf), c)
        # metric fields
        P.ev("metric-fields")
        for metric in T.ORDER[ver]:
            k = find_key(ver, metric, d)
            if k is None:
                if not minimal or metric in T.MANDATORY[ver]:
                    P.violation("metric-fields", "C11:v%s:metric-field-missing:%s" % (ver, metric), c)
                continue
            dec = T.decode_name(ver, metric, d[k])
            if dec != [eff[metric]]:
                kind = "not-a-known-name"
                if dec:
                    kind = "names-another-value"
                how = "stated" if m.get(metric, nd) != nd else ("inherited-from-base" if metric in T.MODIFIED[ver] else "not-defined")
                P.violation("metric-fields", "C11:v%s:%s-field-%s:%s-value" % (ver, metric, kind, how), c, json_key=k,
                            observed=repr(d[k]), effective=eff[metric])
            else:
                P.addset("decoded_v%s" % ver, [(metric, eff[metric])])


def judge_relations(P, ver, m, sc, res, case):
    """sort / minimal relations between the four results."""
    nd = T.ND[ver]
    # sort
    P.ev("sort")
    for minimal in (False, True):
        a, b = res[(False, minimal)], res[(True, minimal)]
        c = dict(case, sort=True, minimal=minimal)
        ks = list(b.keys())
        if ks != sorted(ks):
            P.violation("sort", "C11:v%s:sorted-keys-not-ascending" % ver, c, observed=ks[:8])
        if dict(a) != dict(b):
            P.violation("sort", "C11:v%s:sort-changes-content" % ver, c,
                        only_unsorted=sorted(set(a) - set(b)), only_sorted=sorted(set(b) - set(a)),
                        differing=[k for k in a if k in b and a[k] != b[k]][:5])
    # minimal
    P.ev("minimal")
    for sort in (False, True):
        full, mini = res[(sort, False)], res[(sort, True)]
        c = dict(case, sort=sort, minimal=True)
        extra = [k for k in mini if k not in full or full[k] != mini[k]]
        if extra:
            P.violation("minimal", "C11:v%s:minimal-adds-or-changes-fields" % ver, c, keys=extra[:6])
            continue
        removed = set(full) - set(mini)
        groups = removable_keys(ver, full)
        grouped = set(k for ks in groups.values() for k in ks)
        base_removed = sorted(removed - grouped)
        if base_removed:
            P.violation("minimal", "C11:v%s:minimal-removes-a-base-field" % ver, c, keys=base_removed)
        for g, ks in groups.items():
            gone = [k for k in ks if k in removed]
            if gone and len(gone) != len(ks):
                P.violation("minimal", "C11:v%s:minimal-removes-part-of-group:%s" % (ver, g), c, removed=gone,
                            kept=[k for k in ks if k not in removed])
            mets = T.MINIMAL_GROUPS[ver][g][0]
            has_defined = any(m.get(k, nd) != nd for k in mets)
            if gone and has_defined:
                zero = ""
                idx = {"temporal": 1, "environmental": 2}.get(g)
                if idx is not None and idx < len(sc) and sc[idx] == 0.0:
                    zero = ":score-0.0"
                P.violation("minimal", "C11:v%s:minimal-drops-group-with-defined-metric:%s%s" % (ver, g, zero), c, removed=gone)
            if gone:
                P.stratum("v%s:minimal-removed:%s" % (ver, g))
            elif ks:
                P.stratum("v%s:minimal-kept:%s:%s" % (ver, g, "defined" if has_defined else "undefined"))


def check_case(P, case):
    check_vector(P, case["ver"], case["vector"], copies="copy" in case)


def extra_vectors(ver):
    """groups whose score is 0.0 although metrics in them are defined; explicit ND."""
    out = []
    if ver == "2":
        b = {"AV": "N", "AC": "L", "Au": "N", "C": "P", "I": "P", "A": "P"}
        z = {"AV": "L", "AC": "H", "Au": "M", "C": "N", "I": "N", "A": "N"}
        for extra in ({"TD": "N"}, {"CDP": "H", "TD": "N"}, {"TD": "N", "E": "U"}, {"CR": "H", "TD": "N", "RC": "UC"}):
            out.append(("", dict(b, **extra)))
        for extra in ({"E": "U"}, {"RL": "OF", "RC": "UC"}, {"E": "H"}, {"CDP": "N"}, {"CR": "L"}, {"E": "F", "CR": "M"},
                      {"E": "ND", "RL": "ND", "RC": "ND"}, {"CDP": "ND", "TD": "ND"}, {"E": "ND", "TD": "H"}):
            out.append(("", dict(z, **extra)))
            out.append(("", dict(b, **extra)))
    if ver == "3":
        z = {"AV": "N", "AC": "L", "PR": "N", "UI": "N", "S": "U", "C": "N", "I": "N", "A": "N"}
        h = {"AV": "N", "AC": "L", "PR": "N", "UI": "N", "S": "C", "C": "H", "I": "H", "A": "H"}
        for p in T.PREFIXES["3"]:
            for extra in ({"E": "U"}, {"RC": "R"}, {"CR": "H"}, {"MC": "N", "MI": "N", "MA": "N"}, {"E": "X"}, {"MAV": "X"},
                          {"E": "X", "CR": "X"}, {"E": "H"}, {"MS": "U"}, {"MC": "H"}, {"E": "P", "MPR": "H"}):
                out.append((p, dict(z, **extra)))
                out.append((p, dict(h, **extra)))
    if ver == "4":
        z = {"AV": "N", "AC": "L", "AT": "N", "PR": "N", "UI": "N", "VC": "N", "VI": "N", "VA": "N", "SC": "N", "SI": "N", "SA": "N"}
        for extra in ({}, {"E": "X"}, {"E": "U"}, {"MSI": "S"}, {"MVC": "H"}, {"U": "Red"}, {"S": "P", "E": "P"}):
            out.append(("CVSS:4.0/", dict(z, **extra)))
    return out


def shard(P, ver, idx, nshards, n, seed):
    import random
    rng = random.Random("C11-%s-%s" % (seed, ver))
    work = extra_vectors(ver) + C10.vectors_for(rng, ver, n)
    rng2 = random.Random("C11-%s-%s-%s" % (seed, ver, idx))
    for j, (p, m) in enumerate(work):
        if j % nshards != idx:
            continue
        s = V.spell(p, m, "shuffle" if j % 2 else None, rng2)
        P.dist(s)
        check_vector(P, ver, s)
        if j % 3 == 0:
            # an EQUAL vector in another spelling serialised right afterwards in the same
            # process must report ITS OWN string (caches keyed by the canonical form)
            s2 = V.spell(p, V.nd_variants(ver, m, rng2, 1)[-1], "shuffle", rng2)
            if s2 != s:
                P.stratum("equal-vector-other-spelling-right-after")
                check_vector(P, ver, s2)
                check_vector(P, ver, s)
        if j % 499 == 0:
            P.sample({"ver": ver, "vector": s})


def shard_mixed(P, idx, n, seed):
    """All versions interleaved in ONE process (the per-version shards never meet): a table of names shared
    between the classes must not carry one version's spelling over to another.  The version that goes first
    differs from shard to shard."""
    import random
    rng = random.Random("C11-mixed-%s-%s" % (seed, idx))
    order = [["3", "4", "2"], ["4", "3", "2"], ["2", "4", "3"], ["4", "2", "3"]][idx % 4]
    work = {ver: extra_vectors(ver) + C10.vectors_for(rng, ver, n) for ver in order}
    # the values whose names are shared between versions first
    first = {"2": "AV:A/AC:L/Au:N/C:P/I:P/A:P", "3": "CVSS:3.1/AV:A/AC:L/PR:N/UI:N/S:U/C:H/I:H/A:H/MAV:A",
             "4": "CVSS:4.0/AV:A/AC:L/AT:N/PR:N/UI:N/VC:H/VI:H/VA:H/SC:N/SI:N/SA:N/MAV:A/E:P"}
    for ver in order:
        P.stratum("mixed-versions-in-one-process")
        check_vector(P, ver, first[ver])
    for j in range(n):
        for ver in order:
            p, m = work[ver][(j * 7 + idx) % len(work[ver])]
            s = V.spell(p, m, "shuffle" if j % 2 else None, rng)
            P.dist(("mixed", s))
            P.stratum("mixed-versions-in-one-process")
            check_vector(P, ver, s)


def run(R):
    _run(R)
    # objects the LIBRARY builds itself (text extractor, from_rh_vector, CLI, the repository's own tests)
    # are judged by the same oracles through icontract contracts attached to the real classes
    from .. import contracts
    contracts.session(R, "C11")
    R.require("contract:as_json")


def _run(R):
    R.rule = RULE
    R.require("identity", "scores", "metric-fields", "sort", "minimal")
    R.assumptions = ["metric fields are located under the official schema key or, for v4, the non-schema key in use at the "
                     "pinned commit (spec/tables.JSON_KEYS); names decoded through spec/tables.JSON_NAMES (schema enum + "
                     "specification display names), a name being accepted only for the one value it denotes"]
    n = R.pick(2500, 500000)
    for ver in T.VERSIONS:
        R.pmap("shard", [(ver, i, 16, n, R.seed) for i in range(16)])
    R.pmap("shard_mixed", [(i, R.pick(150, 5000), R.seed) for i in range(8)])
    # every (metric, value) must have been decoded at least once
    for ver in T.VERSIONS:
        got = R.P.extra.get("decoded_v%s" % ver, set())
        want = set((mm, v) for mm in T.ORDER[ver] for v in T.VALUES[ver][mm] if not (mm in T.MODIFIED[ver] and v == T.ND[ver]))
        miss = want - got
        if miss:
            R.inconclusive.append("v%s: (metric, value) never decoded from JSON: %s" % (ver, sorted(miss)[:5]))


# ---- in-memory seeded faults -------------------------------------------------
def _m_swap_names(L):
    import cvss.cvss3 as c3
    n = c3.METRICS_VALUE_NAMES["C"]
    n["L"], n["H"] = n["H"], n["L"]


def _m_vs_clean(L):
    import cvss.cvss3 as c3
    orig = c3.CVSS3.as_json

    def f(self, sort=False, minimal=False):
        d = orig(self, sort, minimal)
        d["vectorString"] = self.clean_vector()
        return d
    c3.CVSS3.as_json = f


def _m_sort_loses(L):
    import cvss.cvss2 as c2
    orig = c2.CVSS2.as_json

    def f(self, sort=False, minimal=False):
        d = orig(self, False, minimal)
        if sort:
            d = c2.OrderedDict(sorted((k, v) for k, v in d.items() if k != "remediationLevel" or v != "NOT_DEFINED"))
        return d
    c2.CVSS2.as_json = f


def _m_min_temporal(L):
    import cvss.cvss3 as c3
    orig = c3.CVSS3.as_json

    def f(self, sort=False, minimal=False):
        d = orig(self, sort, minimal)
        if minimal and d.get("temporalScore") == d.get("baseScore"):
            for k in ("exploitCodeMaturity", "remediationLevel", "reportConfidence", "temporalScore", "temporalSeverity"):
                d.pop(k, None)
        return d
    c3.CVSS3.as_json = f


def _m_modified_x(L):
    import cvss.cvss3 as c3
    orig = c3.CVSS3.as_json

    def f(self, sort=False, minimal=False):
        d = orig(self, sort, minimal)
        if "modifiedScope" in d and self.original_metrics.get("MS", "X") == "X":
            d["modifiedScope"] = "NOT_DEFINED"
        return d
    c3.CVSS3.as_json = f


def _m_v4_key_value_shift(L):
    import cvss.cvss4 as c4
    c4.METRICS_ABBREVIATIONS_JSON["VI"], c4.METRICS_ABBREVIATIONS_JSON["VA"] = (c4.METRICS_ABBREVIATIONS_JSON["VA"],
                                                                               c4.METRICS_ABBREVIATIONS_JSON["VI"])


def _m_env_score_field(L):
    import cvss.cvss3 as c3
    orig = c3.CVSS3.as_json

    def f(self, sort=False, minimal=False):
        d = orig(self, sort, minimal)
        if "environmentalScore" in d:
            d["environmentalScore"] = d["temporalScore"] if "temporalScore" in d else d["environmentalScore"]
        return d
    c3.CVSS3.as_json = f


def _m_partial_group(L):
    import cvss.cvss2 as c2
    orig = c2.CVSS2.as_json

    def f(self, sort=False, minimal=False):
        d = orig(self, sort, minimal)
        if minimal and d.get("targetDistribution") == "NOT_DEFINED":
            d.pop("targetDistribution")
        return d
    c2.CVSS2.as_json = f


MUTANTS = {"v3_names_of_C_L_and_C_H_swapped": _m_swap_names, "v3_vectorString_is_clean_vector": _m_vs_clean,
           "v2_sort_loses_a_key": _m_sort_loses, "v3_minimal_drops_temporal_when_equal_to_base": _m_min_temporal,
           "v3_undefined_MS_reported_NOT_DEFINED": _m_modified_x, "v4_VI_VA_keys_swapped": _m_v4_key_value_shift,
           "v3_environmentalScore_field_is_temporal": _m_env_score_field, "v2_minimal_removes_part_of_group": _m_partial_group}
