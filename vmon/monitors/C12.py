"""C12 -- Red Hat notation round-trips and rejects mismatching scores.

Monitors:
  rh-format     rh_vector() == '%.1f' % base + '/' + clean_vector()
  round-trip    from_rh_vector(x.rh_vector()) == x (same scores, same clean vector)
  acceptance    from_rh_vector(s) outcome == sequential model of the property:
                  no '/'                      -> RH-malformed error
                  head not accepted by float  -> RH-malformed error
                  vector part invalid         -> that vector error (malformed / mandatory)
                  float(head) == base score   -> accepted, else score-mismatch error
                (head AND vector part faulty: either applicable error is accepted)
"""
import re

from .. import obs
from ..bootstrap import lib
from ..spec import tables as T
from ..workloads import vectors as V

ORACLES = ("tables",)
RULE = ("a case is (version, RH string); for each sampled accepted vector: its own RH string, all 101 representable scores "
        "as head, its temporal/environmental scores, number spellings that float() accepts or rejects, nan/inf, missing "
        "head, and invalid vector parts (field-level mutants) behind correct and wrong heads; distinct = distinct strings; "
        "non-trivial = from_rh_vector executed and its outcome compared with the model.")

ALL_SCORES = ["%d.%d" % (i // 10, i % 10) for i in range(0, 101)]


def model(ver, s, base_of):
    """Set of acceptable outcomes: 'ACCEPT' or exception class names."""
    n = ver
    if "/" not in s:
        return {"CVSS%sRHMalformedError" % n}
    head, rest = s.split("/", 1)
    try:
        val = float(head)
        head_ok = True
    except ValueError:
        head_ok = False
    c = T.classify(ver, rest)
    vec_err = {T.MALFORMED: "CVSS%sMalformedError" % n, T.MANDATORY_MISSING: "CVSS%sMandatoryError" % n}.get(c)
    if not head_ok:
        out = {"CVSS%sRHMalformedError" % n}
        if vec_err:
            out.add(vec_err)
        return out
    if vec_err:
        return {vec_err}
    base = base_of(rest)
    if base is not None and val == base:
        return {"ACCEPT"}
    return {"CVSS%sRHScoreDoesNotMatch" % n}


def check_rh_string(P, ver, s, kind="?", preceded_by=None):
    L = lib()
    P.evaluations += 1
    case = {"ver": ver, "rh": s, "kind": kind}
    if preceded_by:
        case["preceded_by"] = preceded_by  # RH strings parsed earlier in the same process (history witness)

    def base_of(rest):
        ok, o = obs.call(L.CLS[ver], rest)
        return o.scores()[0] if ok else None
    want = model(ver, s, base_of)
    ok, r = obs.call(L.CLS[ver].from_rh_vector, s)
    P.ev("acceptance")
    P.stratum("v%s:expect:%s" % (ver, "+".join(sorted(w.replace("CVSS" + ver, "") for w in want))))
    if ok:
        if "ACCEPT" not in want:
            P.violation("acceptance", "C12:v%s:accepted-but-model-says:%s:%s" % (ver, "+".join(sorted(want)).replace("CVSS" + ver, ""), kind),
                        case)
            return
        # accepted object must be the vector part's object
        rest = s.split("/", 1)[1]
        ok2, o = obs.call(L.CLS[ver], rest)
        ok3, same = obs.call(lambda: r == o and r.scores() == o.scores() and type(r) is L.CLS[ver])
        if not (ok2 and ok3 and same):
            P.violation("acceptance", "C12:v%s:accepted-object-differs-from-vector-part" % ver, case)
        return
    e = r
    name = obs.exc_name(e)
    if not isinstance(e, L.CVSSError):
        P.violation("acceptance", "C12:v%s:foreign-exception:%s:%s" % (ver, name, kind), case, error=repr(e)[:300])
        return
    accepted_classes = [L.exc(w) for w in want if w != "ACCEPT"]
    if not any(isinstance(e, c) for c in accepted_classes):
        P.violation("acceptance", "C12:v%s:raised-%s-but-model-says:%s:%s" % (ver, name.replace("CVSS" + ver, ""),
                    "+".join(sorted(want)).replace("CVSS" + ver, ""), kind), case, error=repr(e)[:300])


def check_object(P, ver, s):
    """rh-format and round-trip on one accepted vector; returns (obj, scores) or None."""
    P.remember({"ver": ver, "vector": s})
    L = lib()
    P.evaluations += 1
    case = {"ver": ver, "vector": s}
    ok, o = obs.call(L.CLS[ver], s)
    if not ok:
        P.violation("construct", "C12:v%s:exception:%s" % (ver, obs.exc_name(o)), case, error=repr(o))
        return None
    ok, r = obs.call(lambda: (o.rh_vector(), o.scores(), o.clean_vector()))
    if not ok:
        P.violation("rh-format", "C12:v%s:rh_vector-raises:%s" % (ver, obs.exc_name(r)), case, error=repr(r))
        return None
    rh, sc, clean = r
    P.ev("rh-format")
    want = None
    try:
        want = "%.1f" % sc[0] + "/" + clean
    except Exception:
        pass
    if rh != want:
        P.violation("rh-format", "C12:v%s:rh_vector-is-not-score-slash-clean-vector" % ver, case, observed=repr(rh), expected=repr(want))
    elif not re.match(r"^(10\.0|[0-9]\.[0-9])/", rh):
        # "the base score printed with one decimal": digits, a point, one digit (a sign, an exponent, 'None' are not)
        P.violation("rh-format", "C12:v%s:rh_vector-score-text-is-not-a-one-decimal-number" % ver, case, observed=repr(rh))
    P.ev("round-trip")
    ok, o2 = obs.call(L.CLS[ver].from_rh_vector, rh)
    if not ok:
        P.violation("round-trip", "C12:v%s:own-rh_vector-rejected:%s" % (ver, obs.exc_name(o2)), case, rh=rh, error=repr(o2)[:300])
    else:
        ok, same = obs.call(lambda: (o2 == o, o == o2, o2.scores() == sc, o2.clean_vector() == clean, hash(o2) == hash(o),
                                     type(o2) is L.CLS[ver]))
        if not ok or not all(x is True for x in same):
            P.violation("round-trip", "C12:v%s:round-trip-object-differs" % ver, case, rh=rh, observed=repr(same))
    # "for every object": also one whose other accessors have been used in between
    def touch():
        o.clean_vector()
        if ver != "2":
            o.clean_vector(output_prefix=False)
        o.severities()
        o.as_json(minimal=True)
        if ver != "4":
            o.temporal_vector(), o.environmental_vector()
        hash(o)
        return o.rh_vector()
    ok, rh2 = obs.call(touch)
    P.ev("rh-format-after-accessors")
    if not ok or rh2 != rh:
        P.violation("rh-format", "C12:v%s:rh_vector-differs-after-other-accessors" % ver, case, first=repr(rh), then=repr(rh2)[:300])
    return o, sc


def check_case(P, case):
    if "rh" in case:
        for earlier in case.get("preceded_by") or []:
            obs.call(lib().CLS[case["ver"]].from_rh_vector, earlier)
        check_rh_string(P, case["ver"], case["rh"], case.get("kind", "?"), case.get("preceded_by"))
    else:
        check_object(P, case["ver"], case["vector"])


def heads_for(sc):
    """(kind, head) number spellings around the base score sc[0]."""
    b = sc[0]
    t = "%.1f" % b
    out = [("own", t)]
    for x in ALL_SCORES:
        out.append(("score-grid", x))
    for i in (1, 2):
        if i < len(sc) and sc[i] is not None and sc[i] != b:
            out.append(("other-slot-score", "%.1f" % sc[i]))
    out += [("spelling-ok", t + "0"), ("spelling-ok", "0" + t), ("spelling-ok", "+" + t), ("spelling-ok", t + "e0"),
            ("spelling-ok", " " + t), ("spelling-ok", t + " "), ("spelling-ok", "\t" + t + "\n"), ("spelling-ok", t + "000000000000"),
            ("spelling-ok", "%de-1" % round(b * 10)), ("spelling-ok", t.replace(".", ".") + "E+0")]
    # digits and blanks outside ASCII that float() takes on every supported interpreter (full-width, Arabic-Indic,
    # Devanagari digits; ideographic space, no-break space)
    for zero in (0xff10, 0x0660, 0x0966):
        out.append(("spelling-ok", "".join(chr(zero + int(ch)) if ch.isdigit() else ch for ch in t)))
    out += [("spelling-ok", t + "\u3000"), ("spelling-ok", "\u00a0" + t)]
    if b == int(b):
        out += [("spelling-ok", "%d" % b), ("spelling-ok", "%d." % b), ("spelling-ok", "%d.00" % b)]
    if b == 0:
        out += [("spelling-ok", "-0.0"), ("spelling-ok", "-0"), ("spelling-ok", ".0"), ("spelling-ok", "0e5")]
    else:
        out += [("negated", "-" + t)]
    out += [("near", "%.2f" % (b + 0.01)), ("near", "%.2f" % (b + 0.04)), ("near", "%.2f" % (b + 0.05)), ("near", "%.2f" % max(0, b - 0.05)),
            ("near", "%.1f" % (b + 0.1)), ("near", "%.1f" % max(0.0, b - 0.1)), ("near", repr(b + 1e-9)), ("near", repr(b + 1e-15)),
            ("near", t + "0000000000000001"), ("near", "%.1f" % (b + 1)), ("near", "%.1f" % (10 - b)), ("near", "%.17g" % (b + 2e-16))]
    out += [("nonfinite", "nan"), ("nonfinite", "inf"), ("nonfinite", "-inf"), ("nonfinite", "NaN"), ("nonfinite", "Infinity"),
            ("nonfinite", "1e999")]
    out += [("not-a-number", ""), ("not-a-number", "abc"), ("not-a-number", t.replace(".", ",")), ("not-a-number", t + ".1"),
            ("not-a-number", t + "x"), ("not-a-number", "x" + t), ("not-a-number", "--" + t), ("not-a-number", "0x10"),
            ("not-a-number", t + " " + t), ("not-a-number", "None"), ("not-a-number", "."), ("not-a-number", "e1"),
            ("not-a-number", "CVSS"), ("not-a-number", t[:-1] + "٫" + t[-1]), ("not-a-number", "½")]
    # format / template metacharacters (the head is user text and ends up in messages)
    out += [("not-a-number", x) for x in ("{score}", "{0}", "{", "}", "{}", "{0", "%s", "%(x)s", "%", "$x", "${score}", "\\", t + "{0}", "{" + t + "}")]
    return out


def shard(P, ver, idx, n, seed):
    import random
    rng = random.Random("C12-%s-%s-%s" % (seed, ver, idx))
    pool = V.each_choice(ver) if idx == 0 else []
    for j in range(n):
        prefix = V.rand_prefix(rng, ver)
        m = pool.pop() if pool else V.rand_metrics(rng, ver, p_opt=rng.choice((0.1, 0.5, 0.9)), p_nd=0.3)
        s = V.spell(prefix, m, "shuffle", rng)
        P.dist((ver, s))
        r = check_object(P, ver, s)
        if r is None:
            continue
        o, sc = r
        if not obs.is_wellformed_score(sc[0]):
            continue
        own = ["%.1f/" % sc[0] + s]  # parsed by the round-trip check above: part of every later case's history
        obs.call(lib().CLS[ver].from_rh_vector, own[0])
        for kind, head in heads_for(sc):
            rh = head + "/" + s
            P.dist(rh)
            check_rh_string(P, ver, rh, kind, own)
        # missing separator / head forms
        for kind, rh in (("no-slash", s.replace("/", "")), ("no-slash", "%.1f" % sc[0]), ("no-slash", ""), ("no-head", "/" + s),
                         ("double-slash", "%.1f//" % sc[0] + s), ("head-only", "%.1f/" % sc[0]), ("vector-only", s),
                         ("swapped", s + "/%.1f" % sc[0]), ("space-after-slash", "%.1f/ " % sc[0] + s)):
            check_rh_string(P, ver, rh, kind)
        # invalid vector parts behind correct / wrong / bad heads
        fields = T.parse(ver, s)[1]
        muts = list(V.field_mutants(ver, prefix, fields, rng))
        for op, mstr in rng.sample(muts, min(25, len(muts))):
            for head in ("%.1f" % sc[0], "0.0", "abc"):
                check_rh_string(P, ver, head + "/" + mstr, "mutant-vector:" + ("good-head" if head[0] != "a" and head != "0.0" else head))
        # format / template metacharacters in the vector part, behind the correct head
        for junk in ("{vector}", "{0}", "{", "}", s + "{0}", "{" + s + "}", "%s", s + "%(x)s", s.replace(":", "{}", 1), "$" + s):
            check_rh_string(P, ver, "%.1f/" % sc[0] + junk, "format-metacharacters-in-vector-part")
        # cross-version vector parts
        for over in T.VERSIONS:
            if over != ver:
                p2, m2, s2 = V.rand_vector(rng, over)
                check_rh_string(P, ver, "%.1f/" % sc[0] + s2, "other-version-vector")
        if j % 37 == 0:
            P.sample({"ver": ver, "rh": "%.1f/" % sc[0] + s, "kind": "own"})
            P.sample({"ver": ver, "rh": "nan/" + s, "kind": "nonfinite"})


def run(R):
    _run(R)
    # objects the LIBRARY builds itself (text extractor, from_rh_vector, CLI, the repository's own tests)
    # are judged by the same oracles through icontract contracts attached to the real classes
    from .. import contracts
    contracts.session(R, "C12")
    R.require("contract:rh_vector")


def _run(R):
    R.rule = RULE
    R.require("rh-format", "round-trip", "acceptance")
    R.assumptions = ["'parses as a number' = accepted by Python's float() (the model calls float() itself)",
                     "the computed base score is taken from the library (its correctness is C01-C03's subject)"]
    n = R.pick(60, 2500)
    for ver in T.VERSIONS:
        R.pmap("shard", [(ver, i, n, R.seed) for i in range(16)])
    for ver in T.VERSIONS:
        for want in ("ACCEPT", "RHScoreDoesNotMatch", "RHMalformedError", "MalformedError", "MandatoryError"):
            if R.P.strata.get("v%s:expect:%s" % (ver, want), 0) == 0:
                R.inconclusive.append("v%s: no case with expected outcome %s" % (ver, want))


# ---- in-memory seeded faults -------------------------------------------------
def _wrap_from_rh(ver, fn):
    L = lib()
    cls = L.CLS[ver]
    cls.from_rh_vector = classmethod(fn)


def _m_tolerance(L):
    import cvss.cvss3 as c3

    def f(cls, vector):
        try:
            score, base_vector = vector.split("/", 1)
            score_value = float(score)
        except ValueError:
            raise c3.CVSS3RHMalformedError("x")
        o = cls(base_vector)
        if abs(o.scores()[0] - score_value) < 0.11:
            return o
        raise c3.CVSS3RHScoreDoesNotMatch("x")
    _wrap_from_rh("3", f)


def _m_temporal(L):
    import cvss.cvss2 as c2

    def f(cls, vector):
        try:
            score, base_vector = vector.split("/", 1)
            score_value = float(score)
        except ValueError:
            raise c2.CVSS2RHMalformedError("x")
        o = cls(base_vector)
        ref = o.scores()[1] if o.scores()[1] is not None else o.scores()[0]
        if ref == score_value:
            return o
        raise c2.CVSS2RHScoreDoesNotMatch("x")
    _wrap_from_rh("2", f)


def _m_g(L):
    import cvss.cvss3 as c3
    c3.CVSS3.rh_vector = lambda self: "%g" % self.scores()[0] + "/" + self.clean_vector()


def _m_v4_class(L):
    import cvss.cvss4 as c4
    import cvss.exceptions as E

    def f(cls, vector):
        try:
            score, base_vector = vector.split("/", 1)
            score_value = float(score)
        except ValueError:
            raise E.CVSS3RHMalformedError("x")
        o = cls(base_vector)
        if o.scores()[0] == score_value:
            return o
        raise c4.CVSS4RHScoreDoesNotMatch("x")
    _wrap_from_rh("4", f)


def _m_rsplit(L):
    import cvss.cvss2 as c2

    def f(cls, vector):
        try:
            score, base_vector = vector.split("/", 1)
            score_value = float(score.strip("/ "))
        except ValueError:
            raise c2.CVSS2RHMalformedError("x")
        o = cls(base_vector.lstrip("/"))
        if o.scores()[0] == score_value:
            return o
        raise c2.CVSS2RHScoreDoesNotMatch("x")
    _wrap_from_rh("2", f)


def _m_nan(L):
    import cvss.cvss4 as c4

    def f(cls, vector):
        try:
            score, base_vector = vector.split("/", 1)
            score_value = float(score)
        except ValueError:
            raise c4.CVSS4RHMalformedError("x")
        o = cls(base_vector)
        if not (o.scores()[0] < score_value or o.scores()[0] > score_value):
            return o
        raise c4.CVSS4RHScoreDoesNotMatch("x")
    _wrap_from_rh("4", f)


def _m_rh_temporal_clean(L):
    import cvss.cvss3 as c3
    orig = c3.CVSS3.rh_vector
    c3.CVSS3.rh_vector = lambda self: str(self.scores()[0]) + "/" + self.vector if "MA:" in self.vector and self.vector.endswith("X") else orig(self)


MUTANTS = {"v3_tolerance_011": _m_tolerance, "v2_compared_with_temporal": _m_temporal, "v3_rh_uses_percent_g": _m_g,
           "v4_rh_malformed_raises_v3_class": _m_v4_class, "v2_lenient_double_slash": _m_rsplit, "v4_nan_accepted": _m_nan,
           "v3_rh_vector_sometimes_raw_input": _m_rh_temporal_clean}
