"""C13 -- text extraction is total, sound, complete for delimited vectors, duplicate-free.

Postcondition on parse_cvss_from_text(text):
  total        no exception, result is a list
  sound        each result's supplied string (as_json()['vectorString']) occurs in the text
               and is ACCEPTed by the independent recogniser for the object's version
  complete     an independent scanner that implements the property's sentence literally
               lists the delimited valid v2 / v3 vectors; each must be represented
  unique       no two results are equal (==) / share a canonical key
"""
import re

from .. import obs
from ..bootstrap import lib
from ..spec import tables as T
from ..workloads import vectors as V

ORACLES = ("tables",)
RULE = ("a case is one text assembled from valid v2/v3/v4 vectors (incl. the 26-character minimal v2 form), one-edit "
        "near-misses, repeats in other spellings, vectors glued to letters / ':' / '/' / other vectors, punctuation, digits, "
        "'CVSS:3.' fragments, non-ASCII, newlines; plus empty, delimiter-only and megabyte texts; distinct = distinct texts; "
        "non-trivial = the text contains at least one valid vector or near-miss and all four monitors were evaluated.")

CLASS = frozenset("ABCDEFGHIJKLMNOPQRSTUVWXYZabcdefghijklmnopqrstuvwxyz:/")
V3PFX = re.compile(r"CVSS:3\.[01]/")


def required(text):
    """Canonical keys of all delimited valid v2/v3 vectors in text (literal reading)."""
    out = {}
    n = len(text)
    i = 0
    while i < n:
        if text[i] in CLASS:
            j = i
            while j < n and text[j] in CLASS:
                j += 1
            s = text[i:j]
            if T.classify("2", s) == T.ACCEPT:
                out[("2",) + T.canon_key("2", s)] = s
            i = j
        else:
            i += 1
    for m in V3PFX.finditer(text):
        a = m.start()
        if a > 0 and text[a - 1] in CLASS:
            continue
        b = m.end()
        while b < n and text[b] in CLASS:
            b += 1
        s = text[a:b]
        if T.classify("3", s) == T.ACCEPT:
            out[("3",) + T.canon_key("3", s)] = s
    return out


FOREIGN_VECTOR = "AV:L/AC:H/Au:M/C:N/I:N/A:N/E:U/RL:OF/RC:UC/CDP:L/TD:N/CR:L/IR:L/AR:L"


def check_text(P, text, mutate=None):
    """mutate: what the caller does to the list it got back ('clear', 'pop', 'extend', 'reverse') before
    asking again for the same text -- the second answer is judged like the first."""
    L = lib()
    case = {"text": text if len(text) < 4000 else text[:2000] + "...<%d chars>..." % len(text) + text[-500:]}
    if len(text) >= 4000:
        case["text_len"] = len(text)
    res = _judge(P, text, case)
    if mutate and isinstance(res, list) and FOREIGN_VECTOR not in text:
        if mutate == "clear":
            del res[:]
        elif mutate == "pop" and res:
            res.pop()
        elif mutate == "extend":
            res.append(L.CVSS2(FOREIGN_VECTOR))
        elif mutate == "reverse":
            res.reverse()
        P.stratum("second-call-after-caller-mutated-the-first-result:" + mutate)
        _judge(P, text, dict(case, second_call_after=mutate))


def _judge(P, text, case):
    L = lib()
    P.evaluations += 1
    ok, res = obs.call(L.parser.parse_cvss_from_text, text)
    P.ev("total")
    if not ok:
        P.violation("total", "C13:raises:%s" % obs.exc_name(res), case, error=repr(res)[:300])
        return
    if not isinstance(res, list):
        P.violation("total", "C13:result-not-a-list", case, observed=repr(type(res)))
        return
    keys = []
    P.ev("sound")
    for o in res:
        ver = "2" if isinstance(o, L.CVSS2) else "3" if isinstance(o, L.CVSS3) else "4" if isinstance(o, L.CVSS4) else None
        if ver is None:
            P.violation("sound", "C13:result-not-a-cvss-object", case, observed=repr(type(o)))
            continue
        ok, src = obs.call(lambda: o.as_json()["vectorString"])
        if not ok or not isinstance(src, str):
            P.violation("sound", "C13:cannot-observe-supplied-string", case, error=repr(src))
            continue
        if src not in text:
            P.violation("sound", "C13:v%s:result-not-built-from-a-substring" % ver, case, vector=src)
            continue
        if T.classify(ver, src) != T.ACCEPT:
            P.violation("sound", "C13:v%s:result-built-from-invalid-vector" % ver, case, vector=src)
            continue
        keys.append((ver,) + T.canon_key(ver, src))
    P.ev("unique")
    if len(set(keys)) != len(keys):
        P.violation("unique", "C13:two-results-share-a-canonical-key", case, n=len(keys), distinct=len(set(keys)))
    ok, dup = obs.call(lambda: any(res[i] == res[j] for i in range(len(res)) for j in range(i + 1, len(res))) if len(res) < 60 else False)
    if not ok or dup:
        P.violation("unique", "C13:two-results-compare-equal", case)
    P.ev("complete")
    req = required(text)
    missing = [k for k in req if k not in set(keys)]
    P.stratum("required-vectors", len(req))
    P.stratum("returned-objects", len(res))
    P.stratum("returned-not-required", len(set(keys) - set(req)))
    for k in missing[:3]:
        s = req[k]
        how = "len%d" % len(s) if len(s) <= 27 else "long"
        P.violation("complete", "C13:v%s:delimited-valid-vector-not-returned:%s" % (k[0], how if k[0] == "2" else k[1][5:8]), case, vector=s)
    return res


def check_case(P, case):
    check_text(P, case["text"], case.get("second_call_after"))


FILL = ["", " ", ".", ", ", "\n", " see ", "CVSS", "CVSS:", "CVSS:3", "CVSS:3.", "CVSS:3.1", "CVSS:3.1/", "CVSS:3.0/", "3.1/", "/", ":",
        "x", "AV:N", "(", ")", "9.8 ", "é", "1", "score:", "Vector: ", "\t", "CVSS:3.0/AV:N/AC:L", "AV:N/AC:L/Au:N/C:C/I:C/A", "—",
        "\x00", "\r\n", "[", "]", "\"", "'", "<b>", "&amp;", " - ", ";", "CVSS:3.2/", "CVSS:2.0/", "CVSS:4.0/", "0", "_", "-", "=",
        "\u2028", "\U0001f600", "CVSSv3: ", "cvss:3.1/", "Base Score 7.5 ", "//", "::", "A", "Z:", "/z",
        # letters OUTSIDE [A-Za-z] that case-fold or look like ASCII letters: valid delimiters
        "\u0130", "\u0131", "\u017f", "\u212a", "\u00df", "\u03a9", "\u0430", "\uff21", "\u00c5", "\u1e9e", "\ufb01"]
MIN2 = "AV:N/AC:L/Au:N/C:P/I:P/A:P"  # 26 characters


def valid_long(rng, ver):
    """A vector with EVERY optional metric written (the longest strings the grammar has: 75 / 117 characters)."""
    pfx = V.rand_prefix(rng, ver)
    m = {k: rng.choice(T.VALUES[ver][k]) for k in T.ORDER[ver]}
    if ver == "2":
        m["E"] = rng.choice(["POC", "ND", "POC"])
    return V.spell(pfx, m, "shuffle" if rng.random() < 0.5 else None, rng)


def valid(rng, ver, p=0.3):
    p_, m, s = V.rand_vector(rng, ver, p_opt=p, p_nd=0.3, shuffle=0.5)
    return s


def make_text(rng):
    parts = []
    kinds = set()
    for _ in range(rng.randint(0, 8)):
        r = rng.random()
        if r < 0.06:
            ver = rng.choice("233")
            parts.append(valid_long(rng, ver))
            kinds.add("valid-longest-v" + ver)
        elif r < 0.40:
            ver = rng.choice("2334")
            parts.append(valid(rng, ver, rng.choice((0.0, 0.3, 0.8, 1.0))))
            kinds.add("valid-v" + ver)
        elif r < 0.46:
            parts.append(MIN2 if rng.random() < 0.5 else "/".join(m + ":" + rng.choice(T.VALUES["2"][m]) for m in T.MANDATORY["2"]))
            kinds.add("minimal-v2")
        elif r < 0.56:
            s = valid(rng, rng.choice("23"))
            i = rng.randrange(len(s))
            op = rng.random()
            if op < 0.4:
                s = s[:i] + s[i + 1:]
            elif op < 0.7:
                s = s[:i] + rng.choice("xX:/ 3.NL") + s[i + 1:]
            else:
                s = s[:i] + rng.choice("xX:/ 3.NL") + s[i:]
            parts.append(s)
            kinds.add("near-miss")
        elif r < 0.62 and parts:
            parts.append(parts[rng.randrange(len(parts))])
            kinds.add("repeat")
        elif r < 0.655:
            # same assignment, other spelling
            ver = rng.choice("23")
            p_, m, s = V.rand_vector(rng, ver)
            parts.append(s)
            parts.append(rng.choice([" ", "\n", ", "]))
            parts.append(V.spell(p_, m, "shuffle", rng))
            kinds.add("respelled-repeat")
        elif r < 0.685:
            # two DIFFERENT vectors that score alike: an absent optional metric against the value declared equivalent
            # (E:H, TD:H, CR:M ...) or, in v3, against the base metric's own value (MAV:N next to AV:N) -- not equal
            # objects (they define different metric values), so both must come back
            ver = rng.choice("23")
            p_, m, s = V.rand_vector(rng, ver, p_opt=0.3, p_nd=0.5)
            fs = [f for f in T.parse(ver, s)[1]]
            have = dict(fs)
            cands = [(k, v) for k, v in T.ND_EQUIV[ver].items() if have.get(k, T.ND[ver]) == T.ND[ver]]
            if ver == "3":
                cands += [(mk, have[bk]) for mk, bk in T.MODIFIED["3"].items() if have.get(mk, "X") == "X" and bk in have]
            if cands:
                k, v = rng.choice(cands)
                fs2 = [f for f in fs if f[0] != k] + [(k, v)]
                parts.append(s)
                parts.append(rng.choice([" ", "\n", ", ", " vs. "]))
                parts.append(T.spell(p_, fs2))
                kinds.add("score-equivalent-but-different-vectors")
        elif r < 0.70:
            # v3-shaped vector whose minor version is a NON-ASCII digit (\d and int() accept
            # such characters): not a valid vector, must not be returned
            p_, m, s = V.rand_vector(rng, "3")
            parts.append("CVSS:3." + rng.choice("\u0660\u0661\uff10\uff11\u0966\u0967\u00b9\u2460\u0031\u0030") + s[8:])
            kinds.add("unicode-digit-minor-version")
            if rng.random() < 0.5:
                # ... or a minor version that does not exist (3.2 - 3.9), next to a valid vector
                p2, m2, s2 = V.rand_vector(rng, "3")
                parts.append(rng.choice([" ", "\n", ", "]))
                parts.append("CVSS:3." + rng.choice("23456789") + s2[8:])
                parts.append(rng.choice([" ", "\n", ". "]))
                parts.append(valid(rng, rng.choice("23")))
                kinds.add("unsupported-minor-version")
        elif r < 0.72:
            # mandatory metric missing / duplicate
            ver = rng.choice("23")
            p_, m, s = V.rand_vector(rng, ver)
            fs = T.parse(ver, s)[1]
            if rng.random() < 0.5:
                fs = fs + [fs[0]]
            else:
                fs = [f for f in fs if f[0] != T.MANDATORY[ver][rng.randrange(len(T.MANDATORY[ver]))]]
            parts.append(T.spell(p_, fs))
            kinds.add("invalid-by-content")
        parts.append(rng.choice(FILL))
    return "".join(parts), kinds


def shard(P, idx, n, seed):
    import random
    rng = random.Random("C13-%s-%s" % (seed, idx))
    for j in range(n):
        t, kinds = make_text(rng)
        P.dist(t)
        for k in kinds:
            P.stratum("text-has:" + k)
        check_text(P, t, mutate=("clear", "pop", "extend", "reverse")[j % 4] if j % 3 == 0 else None)
        if j % 1999 == 0:
            P.sample({"text": t})
    if idx == 0:
        v3 = "CVSS:3.1/AV:N/AC:L/PR:N/UI:N/S:U/C:H/I:H/A:H"
        specials = ["", " ", "\n" * 1000, "/" * 30, ":" * 26, "A" * 26, "a" * 10 ** 6, "/" * 10 ** 6, (MIN2 + " ") * 20000,
                    (v3 + "\n") * 10000, "CVSS:3." * 100000, MIN2, v3, " " + MIN2 + " ", "(" + v3 + ")", MIN2 + "." + v3,
                    v3 + "." + MIN2, "\ud800" + MIN2 + "\udfff", MIN2 + "\x00" + v3, MIN2 * 2, v3 * 2, v3 + MIN2, MIN2 + "/" + v3,
                    "CVSS:3.1/" + MIN2, "CVSS:3.0/" + v3[9:], "CVSS:3.9/" + v3[9:], "1" + MIN2 + "2", "é" + v3 + "é",
                    MIN2 + "/E:ND/RL:ND/RC:ND/CDP:ND/TD:ND/CR:ND/IR:ND/AR:ND", ("x" * 25 + " ") * 1000,
                    "".join(valid(rng, "3", 0.9) + "\n" for _ in range(2000))]
        for t in specials:
            P.stratum("special-text")
            P.dist(t)
            check_text(P, t)


def run(R):
    _run(R)
    # coverage-guided fuzzing (atheris/libFuzzer) with the same oracle
    from .. import fuzz
    fuzz.session(R, "C13", R.pick(10000, 600000), R.pick(4, 16))
    R.require("atheris-executions")


def _run(R):
    R.rule = RULE
    R.require("total", "sound", "complete", "unique")
    R.assumptions = ["the supplied string of a returned object is observed through as_json()['vectorString'] (C11)",
                     "result order is unspecified (built from a set) and never compared"]
    R.pmap("shard", [(i, R.pick(4000, 500000), R.seed) for i in range(16)])
    if R.P.strata.get("required-vectors", 0) < 1000:
        R.inconclusive.append("fewer than 1000 required vectors in the generated texts")


# ---- in-memory seeded faults -------------------------------------------------
def _patch_regex(frm, to):
    def f(L):
        import inspect
        import textwrap
        import cvss.parser as p
        src = textwrap.dedent(inspect.getsource(p.parse_cvss_from_text))
        assert frm in src, frm
        src = src.replace(frm, to)
        ns = {}
        exec(src, p.__dict__, ns)
        p.parse_cvss_from_text = ns["parse_cvss_from_text"]
    return f


MUTANTS = {
    "min_length_27": _patch_regex("{26,}", "{27,}"),
    "only_minor_0": _patch_regex(r"3\.\d/", r"3\.0/"),
    "class_with_space": _patch_regex("[A-Za-z:/]{26,}", "[A-Za-z:/ ]{26,}"),
    "except_only_malformed": _patch_regex("except (CVSSError, KeyError):", "except (__import__('cvss').exceptions.CVSS3MalformedError, __import__('cvss').exceptions.CVSS2MalformedError, KeyError):"),
}


def _m_list(L):
    import cvss.parser as p

    def f(text):
        matches = re.compile(r"(?:CVSS:3\.\d/)?[A-Za-z:/]{26,}").findall(text)
        out = []
        for match in matches:
            try:
                out.append(p.CVSS3(match) if match.startswith("CVSS:3.") else p.CVSS2(match))
            except (p.CVSSError, KeyError):
                pass
        return out
    p.parse_cvss_from_text = f


def _m_anchor(L):
    import cvss.parser as p

    def f(text):
        matches = re.compile(r"\b(?:CVSS:3\.\d/)?[A-Za-z:/]{26,}").findall(text)
        cvsss = set()
        for match in matches:
            try:
                cvsss.add(p.CVSS3(match) if match.startswith("CVSS:3.") else p.CVSS2(match))
            except (p.CVSSError, KeyError):
                pass
        return list(cvsss)
    p.parse_cvss_from_text = f


def _m_lower(L):
    import cvss.parser as p

    def f(text):
        matches = re.compile(r"(?:CVSS:3\.\d/)?[A-Za-z:/]{26,}").findall(text)
        cvsss = set()
        for match in matches:
            try:
                cvsss.add(p.CVSS3(match) if match.startswith("CVSS:3.1") else p.CVSS2(match))
            except (p.CVSSError, KeyError):
                pass
        return list(cvsss)
    p.parse_cvss_from_text = f


MUTANTS["results_in_a_list"] = _m_list
MUTANTS["word_boundary_anchor"] = _m_anchor
MUTANTS["v30_sent_to_CVSS2"] = _m_lower
