"""C14 -- a more severe metric value never lowers a score (where the standard is monotone).

Relational monitor over *severity lines*: the scores observed while one metric runs
through its severity order (most severe first) with everything else fixed must be
non-increasing.  Independent of the reference models and of the pinned lookup table.

Quick: random lines through every metric + lines through sampled band-edge vectors.
Thorough: the complete score tables are recorded by a sweep of the real constructor
(v4: 15,116,544 points; v3: 2x2,592x48 base/temporal + 2x2,592x27x48 environmental; v2:
729x48) and checked offline with numpy along every axis (checker over a recorded log).
"""
import itertools

from .. import obs
from ..bootstrap import lib
from ..spec import tables as T
from ..workloads import vectors as V

ORACLES = ("tables",)
RULE = ("a case is a severity line: one accepted vector and one metric run through its severity order (2-4 constructions); "
        "distinct = distinct (vector, metric) lines; non-trivial = at least two points on the line were constructed and "
        "compared. Thorough: every one-step pair of the complete score tables (evaluations = table points).")

SLOTS = ("base", "temporal", "environmental")


def slots_in_scope(ver, minor, metric):
    """Indices of scores() that must be monotone in `metric` (property statement)."""
    if ver == "4":
        return (0,)
    if ver == "2":
        return (0, 1) if metric in T.MANDATORY["2"] else (1,)
    # v3
    base_metric = metric in T.MANDATORY["3"]
    temporal_metric = metric in ("E", "RL", "RC")
    out = []
    if base_metric:
        out += [0, 1]
    if temporal_metric:
        out += [1]
    env_ok = (minor == 1) or (metric not in T.V30_ENV_EXEMPT)
    if env_ok:
        out.append(2)
    return tuple(out)


def line_vectors(ver, prefix, m, metric):
    """Strings of the line for `metric` (most severe first), all else as in m."""
    out = []
    for v in T.SEVERITY_ORDER[ver][metric]:
        mm = dict(m)
        if ver == "4" and metric in ("SI", "SA") and v == "S":
            mm["M" + metric] = "S"
        else:
            mm[metric] = v
        out.append((v, V.spell(prefix, mm)))
        if T.ND_EQUIV.get(ver, {}).get(metric) == v:
            # the metric left out altogether sits where its equivalent value sits on the line
            mm2 = dict(mm)
            del mm2[metric]
            out.append((v + "=absent", V.spell(prefix, mm2)))
    return out


# Unrelated vectors scored BETWEEN the points of a line (pattern 1: the lowering one before the more severe
# point, the neutral one before the next; pattern 2: the other way round).  "Never lowers a score" is about two
# scores a user computes in one process, whatever else was scored in between.
_LOW = {"2": "AV:L/AC:H/Au:M/C:N/I:N/A:P/E:U/RL:OF/RC:UC/CDP:N/TD:L/CR:L/IR:L/AR:L",
        "3": "AV:P/AC:H/PR:H/UI:R/S:U/C:N/I:N/A:L/E:U/RL:O/RC:U/CR:L/IR:L/AR:L/MAV:P/MAC:H/MPR:H/MUI:R/MS:U/MC:N/MI:N/MA:L",
        "4": "CVSS:4.0/AV:P/AC:H/AT:P/PR:H/UI:A/VC:N/VI:N/VA:L/SC:N/SI:N/SA:N/E:U/CR:L/IR:L/AR:L/MAV:P/MAC:H/MAT:P/MPR:H/MUI:A/"
             "MVC:N/MVI:N/MVA:L/MSC:N/MSI:N/MSA:N"}
_HIGH = {"2": "AV:N/AC:L/Au:N/C:C/I:C/A:C/E:H/RL:U/RC:C/CDP:H/TD:H/CR:H/IR:H/AR:H",
         "3": "AV:N/AC:L/PR:N/UI:N/S:C/C:H/I:H/A:H/E:H/RL:U/RC:C/CR:H/IR:H/AR:H/MAV:N/MAC:L/MPR:N/MUI:N/MS:C/MC:H/MI:H/MA:H",
         "4": "CVSS:4.0/AV:N/AC:L/AT:N/PR:N/UI:N/VC:H/VI:H/VA:H/SC:H/SI:H/SA:H/E:A/CR:H/IR:H/AR:H/MAV:N/MAC:L/MAT:N/MPR:N/MUI:N/"
              "MVC:H/MVI:H/MVA:H/MSC:H/MSI:S/MSA:S"}


def disturber(ver, prefix, pattern, i):
    tab = _LOW if (pattern + i) % 2 else _HIGH
    return (prefix + tab[ver]) if ver == "3" else tab[ver]


def check_line(P, ver, prefix, m, metric, disturb=0):
    """m: metrics as written (must not define an override of `metric`'s line)."""
    L = lib()
    minor = int(prefix[7]) if ver == "3" else None
    scope = slots_in_scope(ver, minor, metric)
    pts = []
    for i, (v, s) in enumerate(line_vectors(ver, prefix, m, metric)):
        P.evaluations += 1
        if disturb:
            obs.call(lambda: L.CLS[ver](disturber(ver, prefix, disturb, i)).scores())
        ok, o = obs.call(L.CLS[ver], s)
        if not ok:
            P.violation("construct", "C14:exception:" + obs.exc_name(o), {"ver": ver, "vector": s}, error=repr(o))
            return
        ok, sc = obs.call(o.scores)
        if not ok:
            P.violation("construct", "C14:scores-exception", {"ver": ver, "vector": s}, error=repr(sc))
            return
        pts.append((v, s, sc))
    P.ev("monotone-line")
    P.stratum("line:v%s:%s" % (ver if ver != "3" else "3.%d" % minor, metric))
    for (v1, s1, a), (v2, s2, b) in zip(pts, pts[1:]):
        for i in scope:
            if i >= len(a) or a[i] is None or b[i] is None:
                continue
            P.ev("one-step-pair")
            if a[i] != b[i]:
                P.stratum("strict-step")
            if a[i] < b[i]:
                tag = ver if ver != "3" else "3.%d" % minor
                case = {"pair": [s1, s2], "ver": ver, "metric": metric}
                if disturb:
                    j = [x[1] for x in pts].index(s1)
                    case["scored_before_each"] = [disturber(ver, prefix, disturb, j), disturber(ver, prefix, disturb, j + 1)]
                P.violation("monotone-line", "C14:v%s:%s-score-not-monotone-in-%s" % (tag, SLOTS[i], metric), case,
                            more_severe={"vector": s1, "scores": repr(a)}, less_severe={"vector": s2, "scores": repr(b)})


def check_case(P, case):
    """Replay: re-observe the two vectors of a witness pair."""
    L = lib()
    ver = case["ver"]
    s1, s2 = case["pair"]
    pre = case.get("scored_before_each") or [None, None]
    if pre[0]:
        L.CLS[ver](pre[0]).scores()
    a = L.CLS[ver](s1).scores()
    if pre[1]:
        L.CLS[ver](pre[1]).scores()
    b = L.CLS[ver](s2).scores()
    minor = int(s1[7]) if ver == "3" else None
    P.evaluations += 2
    P.ev("monotone-line")
    for i in slots_in_scope(ver, minor, case["metric"]):
        if i < len(a) and a[i] is not None and b[i] is not None and a[i] < b[i]:
            tag = ver if ver != "3" else "3.%d" % minor
            P.violation("monotone-line", "C14:v%s:%s-score-not-monotone-in-%s" % (tag, SLOTS[i], case["metric"]), case,
                        more_severe=repr(a), less_severe=repr(b))


def line_metrics(ver):
    return list(T.SEVERITY_ORDER[ver])


def prepare(ver, m, metric):
    """Make `metric`'s line meaningful on m: remove any override so that the varied
    metric is effective."""
    m = dict(m)
    if ver in ("3", "4"):
        mod = "M" + metric
        if mod in T.MODIFIED[ver]:
            m.pop(mod, None)
    if ver == "4" and metric in ("SI", "SA"):
        m.pop("M" + metric, None)
    return m


def shard_random(P, ver, idx, n, seed):
    import random
    rng = random.Random("C14-%s-%s-%s" % (seed, ver, idx))
    mets = line_metrics(ver)
    for j in range(n):
        prefix = V.rand_prefix(rng, ver)
        m = V.rand_metrics(rng, ver, p_opt=rng.choice((0.2, 0.6, 0.95)), p_nd=0.15)
        metric = mets[(j + idx) % len(mets)]
        m = prepare(ver, m, metric)
        P.dist((ver, prefix, metric, tuple(sorted((k, v) for k, v in m.items() if k != metric))))
        check_line(P, ver, prefix, m, metric, disturb=j % 3)
        if j % 997 == 0:
            P.sample({"ver": ver, "metric": metric, "line": [s for _, s in line_vectors(ver, prefix, m, metric)]})


def shard_macro_lines(P, eq1l, eq2l, nrandom, seed):
    """v4: for every macrovector with these EQ1/EQ2 levels, lines through all 15 scoring
    metrics from its highest-severity vectors, its lowest member and random members
    (spec/ref4's level enumeration is used as a WORKLOAD generator only)."""
    import random
    from ..spec import ref4
    rng = random.Random("C14-mv-%s-%s-%s" % (seed, eq1l, eq2l))
    gs = ("eq1", "eq2", "eq36", "eq4")
    nline = 0
    for l36 in ref4.MEMBERS["eq36"]:
        for l4 in ref4.MEMBERS["eq4"]:
            for e in "APU":
                lv = {"eq1": (eq1l,), "eq2": (eq2l,), "eq36": l36, "eq4": l4}
                # the 16 corners of the macrovector: per class its (first) highest-severity vector or its lowest member
                hi = {g: ref4.LEVELS[g][lv[g]][0][0] for g in gs}
                lo = {g: max(ref4.MEMBERS[g][lv[g]], key=sum) for g in gs}
                picks = []
                for choice in itertools.product((hi, lo), repeat=len(gs)):
                    pk = tuple(c[g] for c, g in zip(choice, gs))
                    if pk not in picks:
                        picks.append(pk)
                for _ in range(nrandom):
                    picks.append(tuple(rng.choice(ref4.MEMBERS[g][lv[g]]) for g in gs))
                for pk in picks:
                    eff = {"E": e}
                    for g, t in zip(gs, pk):
                        eff.update(ref4.values_of(g, t))
                    m = V.v4_written_from_effective(eff)
                    P.stratum("macrovector-stratified-vector")
                    for metric in T.SEVERITY_ORDER["4"]:
                        mm = prepare("4", m, metric)
                        P.dist(("4mv", metric, tuple(sorted((k, v) for k, v in mm.items() if k != metric))))
                        nline += 1
                        check_line(P, "4", "CVSS:4.0/", mm, metric, disturb=nline % 3)


# ---- thorough: recorded tables + offline numpy checker -----------------------
V3_BASE_DIMS = [("AV", "NALP"), ("AC", "LH"), ("PR", "NLH"), ("UI", "NR"), ("S", "CU"), ("C", "HLN"), ("I", "HLN"), ("A", "HLN")]
V3_T_DIMS = [("E", "HFPU"), ("RL", "UWTO"), ("RC", "CRU")]
V3_R_DIMS = [("CR", "HML"), ("IR", "HML"), ("AR", "HML")]
V2_BASE_DIMS = [("AV", "NAL"), ("AC", "LMH"), ("Au", "NSM"), ("C", "CPN"), ("I", "CPN"), ("A", "CPN")]
V2_T_DIMS = [("E", ["H", "F", "POC", "U"]), ("RL", ["U", "W", "TF", "OF"]), ("RC", ["C", "UR", "UC"])]


def _b(x):
    return int(round(x * 10))


def table_v4(P, av, pr, ui, ac, at):
    L = lib()
    names = [d[0] for d in V.V4_DIMS]
    out = bytearray()
    for combo in itertools.product(*[d[1] for d in V.V4_DIMS[5:]]):
        eff = dict(zip(names, [av, pr, ui, ac, at] + list(combo)))
        out.append(_b(L.CVSS4(V.spell("CVSS:4.0/", V.v4_written_from_effective(eff))).scores()[0]))
    P.evaluations += len(out)
    P.extra["t4:%s%s%s%s%s" % (av, pr, ui, ac, at)] = bytes(out)


def table_v3_bt(P, minor, av):
    L = lib()
    out = bytearray()
    for combo in itertools.product(*[d[1] for d in V3_BASE_DIMS[1:] + V3_T_DIMS]):
        m = dict(zip([d[0] for d in V3_BASE_DIMS + V3_T_DIMS], (av,) + combo))
        sc = L.CVSS3(V.spell("CVSS:3.%d/" % minor, m)).scores()
        out.append(_b(sc[0]))
        out.append(_b(sc[1]))
    P.evaluations += len(out) // 2
    P.extra["t3bt:%d%s" % (minor, av)] = bytes(out)


def table_v3_env(P, minor, av):
    L = lib()
    out = bytearray()
    base = {"AV": "P", "AC": "H", "PR": "H", "UI": "R", "S": "U", "C": "L", "I": "L", "A": "L"}
    names = ["M" + d[0] for d in V3_BASE_DIMS] + [d[0] for d in V3_R_DIMS + V3_T_DIMS]
    for combo in itertools.product(*[d[1] for d in V3_BASE_DIMS[1:] + V3_R_DIMS + V3_T_DIMS]):
        m = dict(base)
        m.update(zip(names, (av,) + combo))
        out.append(_b(L.CVSS3(V.spell("CVSS:3.%d/" % minor, m)).scores()[2]))
    P.evaluations += len(out)
    P.extra["t3e:%d%s" % (minor, av)] = bytes(out)


def table_v2(P, av):
    L = lib()
    out = bytearray()
    for combo in itertools.product(*[d[1] for d in V2_BASE_DIMS[1:] + V2_T_DIMS]):
        m = dict(zip([d[0] for d in V2_BASE_DIMS + V2_T_DIMS], (av,) + combo))
        sc = L.CVSS2(V.spell("", m)).scores()
        out.append(_b(sc[0]))
        out.append(_b(sc[1]))
    P.evaluations += len(out) // 2
    P.extra["t2:%s" % av] = bytes(out)


def _axis_check(R, np, arr, dims, label, exempt=(), describe=None):
    """arr: ndarray with one axis per dim (values in severity order, most severe first).
    Every step along every non-exempt axis must be <= 0."""
    P = R.P
    for ax, (name, vals) in enumerate(dims):
        d = np.diff(arr.astype(np.int16), axis=ax)
        npairs = int(d.size)
        P.ev("one-step-pair", npairs)
        P.stratum("table-axis:%s:%s" % (label, name), npairs)
        P.stratum("strict-step", int((d != 0).sum()))
        if name in exempt:
            P.stratum("exempt-nonmonotone-pairs:%s:%s" % (label, name), int((d > 0).sum()))
            continue
        bad = np.argwhere(d > 0)
        for idx in bad[:3]:
            idx = tuple(int(x) for x in idx)
            hi = list(idx)
            lo = list(idx)
            lo[ax] += 1
            P.violation("monotone-line", "C14:%s-score-not-monotone-in-%s" % (label, name),
                        describe(hi, lo, name), more_severe=int(arr[tuple(hi)]), less_severe=int(arr[tuple(lo)]),
                        count=int(len(bad)))
        if len(bad) > 3:
            P.nviol[("monotone-line", "C14:%s-score-not-monotone-in-%s" % (label, name))] += len(bad) - 3


def thorough_tables(R):
    import numpy as np
    # ---- v4
    shards = list(itertools.product(*[d[1] for d in V.V4_DIMS[:5]]))
    R.pmap("table_v4", shards)
    shape = [len(d[1]) for d in V.V4_DIMS]
    buf = b"".join(R.P.extra.pop("t4:" + "".join(s)) for s in shards)
    arr = np.frombuffer(buf, dtype=np.uint8).reshape(shape)
    names = [d[0] for d in V.V4_DIMS]

    def desc4(hi, lo, name):
        def vec(ix):
            eff = {n: V.V4_DIMS[i][1][ix[i]] for i, n in enumerate(names)}
            return V.spell("CVSS:4.0/", V.v4_written_from_effective(eff))
        return {"ver": "4", "metric": name, "pair": [vec(hi), vec(lo)]}
    _axis_check(R, np, arr, V.V4_DIMS, "v4:base", describe=desc4)
    R.P.addset("v4_scores_seen", [int(x) for x in np.unique(arr)])
    R.P.distinct_n += int(arr.size)
    # ---- v3
    R.pmap("table_v3_bt", [(mi, av) for mi in (0, 1) for av in "NALP"])
    R.pmap("table_v3_env", [(mi, av) for mi in (0, 1) for av in "NALP"])
    for minor in (0, 1):
        dims = V3_BASE_DIMS + V3_T_DIMS
        buf = b"".join(R.P.extra.pop("t3bt:%d%s" % (minor, av)) for av in "NALP")
        a = np.frombuffer(buf, dtype=np.uint8).reshape([len(d[1]) for d in dims] + [2])

        def desc3(hi, lo, name, dims=dims, minor=minor, pre={}):
            def vec(ix):
                m = dict(pre)
                m.update({dims[i][0]: dims[i][1][ix[i]] for i in range(len(dims))})
                return V.spell("CVSS:3.%d/" % minor, m)
            return {"ver": "3", "metric": name, "pair": [vec(hi), vec(lo)]}
        _axis_check(R, np, a[..., 0], dims, "v3.%d:base" % minor, describe=desc3)
        _axis_check(R, np, a[..., 1], dims, "v3.%d:temporal" % minor, describe=desc3)
        R.P.distinct_n += int(a[..., 0].size)
        edims = [("M" + n, v) for n, v in V3_BASE_DIMS] + V3_R_DIMS + V3_T_DIMS
        buf = b"".join(R.P.extra.pop("t3e:%d%s" % (minor, av)) for av in "NALP")
        e = np.frombuffer(buf, dtype=np.uint8).reshape([len(d[1]) for d in edims])
        base = {"AV": "P", "AC": "H", "PR": "H", "UI": "R", "S": "U", "C": "L", "I": "L", "A": "L"}

        def desc3e(hi, lo, name, dims=edims, minor=minor):
            return desc3(hi, lo, name, dims=dims, minor=minor, pre=base)
        exempt = T.V30_ENV_EXEMPT if minor == 0 else ()
        _axis_check(R, np, e, edims, "v3.%d:environmental" % minor, exempt=exempt, describe=desc3e)
        R.P.distinct_n += int(e.size)
    # ---- v2
    R.pmap("table_v2", [(av,) for av in "NAL"])
    dims = V2_BASE_DIMS + V2_T_DIMS
    buf = b"".join(R.P.extra.pop("t2:%s" % av) for av in "NAL")
    a = np.frombuffer(buf, dtype=np.uint8).reshape([len(d[1]) for d in dims] + [2])

    def desc2(hi, lo, name):
        def vec(ix):
            return V.spell("", {dims[i][0]: dims[i][1][ix[i]] for i in range(len(dims))})
        return {"ver": "2", "metric": name, "pair": [vec(hi), vec(lo)]}
    _axis_check(R, np, a[..., 0], dims, "v2:base", describe=desc2)
    _axis_check(R, np, a[..., 1], dims, "v2:temporal", describe=desc2)
    R.P.distinct_n += int(a[..., 0].size)
    R.P.ev("monotone-line", 1)


def run(R):
    R.rule = RULE
    R.require("monotone-line", "one-step-pair")
    R.assumptions = ["severity order of each metric's values as in the specifications (spec/tables.SEVERITY_ORDER)",
                     "v3.0 environmental score exempt for C/I/A, MC/MI/MA, CR/IR/AR (as the property states)"]
    n = R.pick(5000, 20000)
    R.pmap("shard_macro_lines", [(a, b, R.pick(1, 4), R.seed) for a in (0, 1, 2) for b in (0, 1)])
    for ver in ("4", "3", "2"):
        R.pmap("shard_random", [(ver, i, n if ver != "2" else n // 3, R.seed) for i in range(16)])
    if not R.quick:
        thorough_tables(R)
        R.exhaustive = True
    # every metric in scope must have been exercised
    missing = []
    for ver in T.VERSIONS:
        for metric in T.SEVERITY_ORDER[ver]:
            tags = ["v%s" % ver] if ver != "3" else ["v3.0", "v3.1"]
            for t in tags:
                if R.P.strata.get("line:%s:%s" % (t, metric), 0) == 0:
                    missing.append("%s:%s" % (t, metric))
    if missing:
        R.inconclusive.append("no line observed for %s" % missing[:5])


# ---- in-memory seeded faults -------------------------------------------------
def _m_lookup(L):
    import cvss.cvss4 as c4
    c4.CVSS_LOOKUP_GLOBAL["000020"] = 9.9


def _m_ui(L):
    import cvss.cvss3 as c3
    from decimal import Decimal as D
    c3.METRICS_VALUES["UI"]["R"] = D("0.9")


def _m_v2(L):
    import cvss.cvss2 as c2
    from decimal import Decimal as D
    c2.METRICS_VALUES["Au"]["S"] = D("0.71")


def _m_level(L):
    import cvss.cvss4 as c4
    c4.CVSS_LOOKUP_GLOBAL["211200"], c4.CVSS_LOOKUP_GLOBAL["211201"] = c4.CVSS_LOOKUP_GLOBAL["211201"], c4.CVSS_LOOKUP_GLOBAL["211200"]


MUTANTS = {"lookup_000020_99": _m_lookup, "v3_UI_R_weight_09": _m_ui, "v2_Au_S_weight_071": _m_v2,
           "lookup_swap_211200_211201": _m_level}
