"""C15 -- temporal_vector()/environmental_vector() are faithful and score-preserving.

Postcondition (v2, v3) on both accessors:
  group-structure  the output lists exactly the group's metrics, once each, in
                   specification order
  group-values     each value = the input's value, else ND (v2) / X (v3 temporal and
                   requirement metrics) / the base metric's value (v3 modified metrics)
  score-preserving cls(prefix + base fields + '/' + tv + '/' + ev).scores() == scores()
"""
from .. import obs
from ..bootstrap import lib
from ..spec import tables as T
from ..workloads import vectors as V

ORACLES = ("tables",)
RULE = ("a case is one accepted v2/v3 vector; distinct = distinct vectors; non-trivial = both sub-vectors were obtained, "
        "parsed and judged and the re-assembled vector's scores compared. Workload: each optional metric alone / absent / "
        "written Not Defined, all pairs inside the environmental group, each-choice over all values, random; random base.")


def expected_value(ver, m, metric):
    nd = T.ND[ver]
    v = m.get(metric, nd)
    if v == nd and metric in T.MODIFIED[ver]:
        return m[T.MODIFIED[ver][metric]]
    return v


def check_vector(P, ver, s, built=None):
    """built: how the judged object is obtained (obs.build): None = the constructor, else from_rh_vector / a copy /
    a pickle round trip / the text extractor."""
    L = lib()
    P.evaluations += 1
    case = {"ver": ver, "vector": s}
    if built:
        case["built"] = built
    ok, o = obs.call(obs.build, L, ver, s, built)
    if not ok:
        P.violation("construct", "C15:v%s:exception:%s" % (ver, obs.exc_name(o)), case, error=repr(o))
        return
    if o is None:
        P.stratum("object-not-obtainable-by:" + str(built))
        return
    if built:
        P.stratum("object-obtained-by:" + built)
    prefix, fields = T.parse(ver, s)
    m = dict(fields)
    subs = {}
    for g, acc in (("temporal", "temporal_vector"), ("environmental", "environmental_vector"),
                   ("temporal", "temporal_vector"), ("environmental", "environmental_vector")):  # each accessor TWICE
        ok, out = obs.call(lambda: getattr(o, acc)())
        P.ev("group-structure")
        if not ok:
            P.violation("group-structure", "C15:v%s:%s-raises:%s" % (ver, acc, obs.exc_name(out)), case, error=repr(out))
            continue
        if not isinstance(out, str):
            P.violation("group-structure", "C15:v%s:%s-not-a-string" % (ver, acc), case, observed=repr(out))
            continue
        subs[g] = out
        parts = [f.split(":") for f in out.split("/")]
        if any(len(p) != 2 for p in parts):
            P.violation("group-structure", "C15:v%s:%s-malformed-field" % (ver, acc), case, observed=out)
            continue
        got_metrics = [p[0] for p in parts]
        want_metrics = T.GROUPS[ver][g]
        if got_metrics != want_metrics:
            why = "wrong-order" if sorted(got_metrics) == sorted(want_metrics) else "wrong-metric-set"
            P.violation("group-structure", "C15:v%s:%s-%s" % (ver, acc, why), case, observed=out, expected_order=want_metrics)
            continue
        P.ev("group-values")
        for metric, v in parts:
            want = expected_value(ver, m, metric)
            if v != want:
                how = "stated" if m.get(metric, T.ND[ver]) != T.ND[ver] else ("inherited" if metric in T.MODIFIED[ver] else "undefined")
                P.violation("group-values", "C15:v%s:%s-reports-wrong-value-for-%s:%s" % (ver, acc, metric, how), case,
                            observed=out, expected=metric + ":" + want)
            else:
                P.addset("values_v%s" % ver, [(metric, v)])
    if len(subs) == 2:
        P.ev("score-preserving")
        base = "/".join(k + ":" + m[k] for k in T.MANDATORY[ver])
        re_s = prefix + base + "/" + subs["temporal"] + "/" + subs["environmental"]
        ok, r = obs.call(lambda: (L.CLS[ver](re_s).scores(), o.scores()))
        if not ok:
            P.violation("score-preserving", "C15:v%s:reassembled-vector-rejected:%s" % (ver, obs.exc_name(r)), case,
                        reassembled=re_s, error=repr(r))
        elif r[0] != r[1]:
            slots = [i for i in range(3) if r[0][i] != r[1][i]]
            P.violation("score-preserving", "C15:v%s:reassembled-vector-scores-differ:slot%s" % (ver, "+".join(map(str, slots))), case,
                        reassembled=re_s, observed=repr(r[0]), original=repr(r[1]))


def check_case(P, case):
    check_vector(P, case["ver"], case["vector"], case.get("built"))


def workload(rng, ver, n):
    nd = T.ND[ver]
    opt = T.OPTIONAL[ver]
    env = T.GROUPS[ver]["environmental"]
    out = []
    for p in T.PREFIXES[ver]:
        for m in V.each_choice(ver):
            out.append((p, m))

        def base():
            return {k: rng.choice(T.VALUES[ver][k]) for k in T.MANDATORY[ver]}
        out.append((p, base()))
        for k in opt:
            for v in T.VALUES[ver][k]:
                m = base()
                m[k] = v
                out.append((p, m))
        for i in range(len(env)):
            for j in range(i + 1, len(env)):
                m = base()
                m[env[i]] = rng.choice([v for v in T.VALUES[ver][env[i]] if v != nd])
                m[env[j]] = rng.choice([v for v in T.VALUES[ver][env[j]] if v != nd])
                out.append((p, m))
    while len(out) < n:
        out.append((V.rand_prefix(rng, ver), V.rand_metrics(rng, ver, p_opt=rng.choice((0.1, 0.5, 0.9)), p_nd=0.3)))
    return out


def shard(P, ver, idx, nshards, n, seed):
    import random
    rng = random.Random("C15-%s-%s" % (seed, ver))
    work = workload(rng, ver, n)
    rng2 = random.Random("C15-%s-%s-%s" % (seed, ver, idx))
    for j, (p, m) in enumerate(work):
        if j % nshards != idx:
            continue
        s = V.spell(p, m, "shuffle" if j % 2 else None, rng2)
        P.dist(s)
        check_vector(P, ver, s)
        if P.evaluations % 2 == 0:
            check_vector(P, ver, s, obs.BUILT[(P.evaluations // 2) % len(obs.BUILT)])
        if j % 799 == 0:
            P.sample({"ver": ver, "vector": s})


def run(R):
    _run(R)
    # objects the LIBRARY builds itself (text extractor, from_rh_vector, CLI, the repository's own tests)
    # are judged by the same oracles through icontract contracts attached to the real classes
    from .. import contracts
    contracts.session(R, "C15")
    R.require("contract:temporal_vector")


def _run(R):
    R.rule = RULE
    R.require("group-structure", "group-values", "score-preserving")
    R.assumptions = ["specification order of the groups: v2 E,RL,RC / CDP,TD,CR,IR,AR; v3 E,RL,RC / CR,IR,AR,MAV,MAC,MPR,MUI,MS,"
                     "MC,MI,MA"]
    n = R.pick(20000, 2000000)
    for ver in ("2", "3"):
        R.pmap("shard", [(ver, i, 16, n, R.seed) for i in range(16)])
    for ver in ("2", "3"):
        got = R.P.extra.get("values_v%s" % ver, set())
        want = set((k, v) for k in T.OPTIONAL[ver] for v in T.VALUES[ver][k] if not (k in T.MODIFIED[ver] and v == T.ND[ver]))
        if want - got:
            R.inconclusive.append("v%s: sub-vector values never observed: %s" % (ver, sorted(want - got)[:5]))


# ---- in-memory seeded faults -------------------------------------------------
def _m_ms_mc(L):
    import cvss.cvss3 as c3
    e = c3.ENVIRONMENTAL_METRICS
    i, j = e.index("MS"), e.index("MC")
    e[i], e[j] = e[j], e[i]


def _m_rl_rc(L):
    import cvss.cvss2 as c2
    c2.CVSS2.temporal_vector = lambda self: "/".join(
        [metric + ":" + self.metrics.get("RL" if metric == "RC" and self.metrics.get("RL") in ("U", "ND") else metric, "ND")
         for metric in c2.TEMPORAL_METRICS])


def _m_original(L):
    import cvss.cvss3 as c3
    c3.CVSS3.environmental_vector = lambda self: "/".join(
        [metric + ":" + self.original_metrics.get(metric, "X") for metric in c3.ENVIRONMENTAL_METRICS])


def _m_drop_x(L):
    import cvss.cvss3 as c3
    c3.CVSS3.temporal_vector = lambda self: "/".join(
        [metric + ":" + self.metrics[metric] for metric in c3.TEMPORAL_METRICS if metric in self.metrics])


def _m_v2_cdp(L):
    import cvss.cvss2 as c2
    orig = c2.CVSS2.environmental_vector
    c2.CVSS2.environmental_vector = lambda self: orig(self).replace("CDP:LM", "CDP:L")


MUTANTS = {"v3_env_MS_MC_swapped": _m_ms_mc, "v2_temporal_RC_reads_RL_sometimes": _m_rl_rc,
           "v3_env_from_original_metrics": _m_original, "v3_temporal_omits_absent_metrics": _m_drop_x,
           "v2_env_CDP_LM_shown_as_L": _m_v2_cdp}
