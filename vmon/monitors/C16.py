"""C16 -- the interactive builder returns exactly the answered, valid vector.

The builder is driven through sys.stdin / sys.stdout; recorded per run: the answers, the
number of reads, the return value or EOFError.  Oracle: spec/dialogue.py (sequential
model; the question ORDER is taken from the returned vector / a probing run).  Monitors:
  outcome-model   (returned fields, number of reads) is an outcome the model allows
  return-shape    prefix, one field per expected metric, each value legal (own table)
  self-accept     the class of that version accepts the returned string
  eof             EOFError exactly when the model says the answers run out
  selectable      every (metric, value) was selected by some script (each-choice, all
                  letter cases) -- counted, a gap makes the run inconclusive
"""
from .. import obs
from ..bootstrap import lib
from ..spec import dialogue as M
from ..spec import tables as T
from ..workloads import dialogue as DLG

ORACLES = ("tables",)
RULE = ("a case is (version, all_metrics, answer script); distinct = distinct scripts; non-trivial = the builder was run to "
        "return or EOF and the outcome compared with the dialogue model. Scripts: for EVERY (metric, value) one selecting it in "
        "as-is / lower / upper / mixed case; junk, empty answers on mandatory and optional metrics, answers legal only for "
        "another metric, padded answers, repeated invalid answers, truncation at every index (premature EOF).")


def check_dialogue(P, vtag, all_metrics, answers, target=None, version_arg=None, sessions_before=None):
    P.evaluations += 1
    ver = DLG.VER_OF[vtag]
    prefix = DLG.PREFIX_OF[vtag]
    mode = "all" if all_metrics else "mandatory"
    case = {"version": vtag, "all_metrics": all_metrics, "answers": answers}
    if target:
        case["target"] = list(target)
    tk = ":target-%s" % target[0] if target else ""
    if DLG.MODES:
        case["modes_before"] = [list(x) for x in DLG.MODES]  # every mode run earlier in this process
    sessions_before = [list(x) for x in DLG.RECENT]
    if sessions_before:
        case["sessions_before"] = sessions_before  # earlier sessions in the same process (history witness)
    if version_arg is not None:
        case["version_arg"] = repr(version_arg)
        P.stratum("version-argument:%r" % (version_arg,))
    r = DLG.run_dialogue(vtag, all_metrics, answers, version_arg=version_arg)
    if r["exc"] == "ReadLimit":
        P.notes.append("INCONCLUSIVE:read-count watchdog hit in an interactive run")
        return
    if r["exc"] not in (None, "EOFError"):
        P.violation("outcome-model", "C16:v%s:%s:raises:%s" % (vtag, mode, r["exc"]), case, error=r.get("exc_repr"))
        return
    expected = DLG.metric_set(vtag, all_metrics)
    if r["ret"] is not None:
        P.ev("return-shape")
        fields = M.parse_return(ver, prefix, r["ret"])
        if fields is None:
            why = "wrong-prefix" if isinstance(r["ret"], str) and ver != "2" and not r["ret"].startswith(prefix) else "malformed"
            P.violation("return-shape", "C16:v%s:%s:returned-string-%s" % (vtag, mode, why), case, returned=repr(r["ret"]))
            return
        ms = [m for m, _ in fields]
        if set(ms) != expected or len(ms) != len(set(ms)):
            skipped = sorted(expected - set(ms))
            twice = sorted(set(x for x in ms if ms.count(x) > 1))
            extra = sorted(set(ms) - expected)
            why = "metric-skipped" if skipped else ("metric-asked-twice" if twice else "unexpected-metric")
            P.violation("return-shape", "C16:v%s:%s:%s" % (vtag, mode, why), case, returned=r["ret"], skipped=skipped,
                        twice=twice, extra=extra)
            return
        bad = [(m, v) for m, v in fields if v not in T.VALSET[ver][m]]
        if bad:
            P.violation("return-shape", "C16:v%s:%s:illegal-value-returned:%s" % (vtag, mode, bad[0][0]), case, returned=r["ret"])
            return
        P.ev("self-accept")
        ok, o = obs.call(lib().CLS[ver], r["ret"])
        if not ok:
            P.violation("self-accept", "C16:v%s:%s:class-rejects-returned-vector:%s" % (vtag, mode, obs.exc_name(o)), case,
                        returned=r["ret"])
        P.ev("outcome-model")
        # question order: established experimentally (DLG.question_order); neither the prompts
        # nor the field order of the returned vector are assumed to reveal it
        qorder, _probe = DLG.question_order(vtag, all_metrics)
        if qorder is None or set(qorder) != expected:
            qorder = ms
            P.stratum("order-witness:returned-vector-fallback")
        outs = M.simulate(ver, qorder, answers)
        got = dict(fields)
        outs = set((tuple((m, got_v) for m, got_v in o_[0]) if o_[0] is not None else None, o_[1]) for o_ in outs)
        if any(o_[0] is not None and dict(o_[0]) == got and o_[1] == r["reads"] for o_ in outs):
            P.stratum("%s:%s:completed" % (vtag, mode))
            for m, v in fields:
                P.addset("selected_%s_%s" % (vtag, mode), [(m, v)])
            return
        done = [o_ for o_ in outs if o_[0] is not None]
        if not done:
            P.violation("outcome-model", "C16:v%s:%s:returned-although-answers-run-out%s" % (vtag, mode, tk), case, returned=r["ret"])
            return
        if any(dict(o_[0]) == got for o_ in done):
            P.violation("outcome-model", "C16:v%s:%s:number-of-reads-differs" % (vtag, mode), case, reads=r["reads"],
                        model=sorted(o_[1] for o_ in done))
            return
        mf, first = None, -1
        for o_ in done:
            d_ = [i for i in range(len(o_[0])) if got.get(o_[0][i][0]) != o_[0][i][1]]
            if d_ and d_[0] > first:
                mf, first = o_[0], d_[0]
        m = mf[first][0]
        # was the model's answer rejected (legal answer rejected) or an illegal one accepted?
        P.violation("outcome-model", "C16:v%s:%s:answer-handling-differs-from-model:%s%s" % (vtag, mode, m, tk), case,
                    returned=r["ret"], model=T.spell(prefix, list(mf)), first_difference=[[m, got.get(m)], list(mf[first])])
        return
    # EOF
    P.ev("eof")
    order, probe = DLG.question_order(vtag, all_metrics)
    if order is None or set(order) != expected:
        P.stratum("eof-not-judged:no-order-witness")
        return
    outs = M.simulate(ver, order, answers)
    if all(o_[0] is None for o_ in outs):
        P.stratum("%s:%s:eof" % (vtag, mode))
        if r["reads"] != len(answers) + 1:
            P.violation("eof", "C16:v%s:%s:reads-before-eof-differ" % (vtag, mode), case, reads=r["reads"], expected=len(answers) + 1)
        return
    if any(o_[0] is None for o_ in outs):
        P.stratum("%s:%s:eof" % (vtag, mode))
        return  # allowed by the padded-answer nondeterminism
    # diagnosis (format independent): extend the script by a universal completion tail
    # and see at which metric the builder's result departs from the model's
    where = "?"
    ext = answers + probe_answers(vtag)
    r2 = DLG.run_dialogue(vtag, all_metrics, ext, limit=len(ext) + 5)
    f2 = M.parse_return(ver, prefix, r2["ret"]) if r2["ret"] is not None else None
    if f2:
        mo = [o_ for o_ in M.simulate(ver, order, ext) if o_[0] is not None]
        g2 = dict(f2)
        best = -1
        for o_ in mo:  # nondeterministic (padded answers): take the outcome agreeing longest
            diff = [i for i in range(len(o_[0])) if g2.get(o_[0][i][0]) != o_[0][i][1]]
            if diff and diff[0] > best:
                best = diff[0]
                where = o_[0][diff[0]][0]
    P.violation("eof", "C16:v%s:%s:eof-although-answers-suffice:legal-answer-rejected-for-%s" % (vtag, mode, where), case,
                model=T.spell(prefix, list(sorted(outs)[0][0])))


def check_case(P, case):
    DLG.question_order(case["version"], case["all_metrics"])  # order witness from the still pristine process
    for vt, am in case.get("modes_before") or []:  # one complete session per earlier mode
        DLG.run_dialogue(vt, am, probe_answers(vt), limit=100000)
    for vt, am, ans in case.get("sessions_before") or []:
        DLG.run_dialogue(vt, am, ans)
    va = case.get("version_arg")
    check_dialogue(P, case["version"], case["all_metrics"], case["answers"], tuple(case["target"]) if case.get("target") else None,
                   version_arg=(float(va) if "." in va else int(va)) if va else None)


def mixed(rng, v):
    return "".join(c.upper() if rng.random() < 0.5 else c.lower() for c in v)


def scripts(rng, vtag, all_metrics, order, n_noise):
    """Yield (answers, target)."""
    ver = DLG.VER_OF[vtag]
    nd = T.ND[ver]

    def legal(m):
        return rng.choice(T.VALUES[ver][m])

    # each (metric, value) in every letter case
    for m in order:
        for v in T.VALUES[ver][m]:
            forms = [v, v.lower(), v.upper(), mixed(rng, v)]
            if v == nd:
                forms.append("")
            for form in forms:
                ans = [form if q == m else legal(q) for q in order]
                yield ans, (m, v)
    for _ in range(n_noise):
        ans = []
        kind = rng.random()
        for q in order:
            k = rng.random()
            if k < 0.15:
                ans.extend(DLG.junk(rng) for _ in range(rng.randint(1, 3)))
            elif k < 0.25:
                if nd not in T.VALUES[ver][q]:
                    ans.append("")  # empty answer on a mandatory metric: must be rejected
            elif k < 0.33:
                # legal for another metric only
                others = [v for mm in order for v in T.VALUES[ver][mm] if M.canonical(ver, q, v) is None]
                if others:
                    ans.append(rng.choice(others))
            elif k < 0.38:
                ans.append(rng.choice([" ", "\t", "  "]) + legal(q))
            elif k < 0.42:
                ans.append(legal(q) + rng.choice([" ", "\t"]))
            elif k < 0.45:
                ans.append(rng.choice([" ", "\t \t"]))
            v = legal(q)
            if nd in T.VALUES[ver][q] and rng.random() < 0.3:
                v = ""
            ans.append(rng.choice([v, v.lower(), v.upper(), mixed(rng, v)]))
        if kind < 0.25:
            ans = ans[:rng.randrange(len(ans) + 1)]  # premature EOF
        elif kind < 0.3:
            ans = ans + [legal(order[0])] * 3  # surplus answers
        yield ans, None
    # truncation at every index of one full script
    full = [legal(q) for q in order]
    for i in range(len(full) + 1):
        yield full[:i], None
    yield [], None
    yield [""] * (len(order) * 3), None
    yield ["?"] * 50, None
    # one rejected answer of every boundary length (a pasted digest, a long line of dashes), then the right answers
    for n in DLG.JUNK_LENGTHS:
        i = rng.randrange(len(order))
        yield [legal(q) for q in order[:i]] + [DLG.long_junk(rng, n)] + [legal(q) for q in order[i:]], None
    # a user (or a pipe) that keeps giving the same wrong answer for a long time, then answers properly
    yield ["?"] * 1500 + [legal(q) for q in order], None
    yield [legal(order[0])] + ["zz"] * 1200 + [legal(q) for q in order[1:]], None


def shard(P, vtag, all_metrics, n_noise, seed):
    import random
    rng = random.Random("C16-%s-%s-%s" % (seed, vtag, all_metrics))
    order, probe = DLG.question_order(vtag, all_metrics)
    mode = "all" if all_metrics else "mandatory"
    if order is None or set(order) != DLG.metric_set(vtag, all_metrics) or len(order) != len(set(order)):
        # the probe itself is a dialogue: judge it, then give up on scripted runs
        check_dialogue(P, vtag, all_metrics, probe_answers(vtag))
        P.stratum("%s:%s:no-usable-order-witness" % (vtag, mode))
        return
    check_dialogue(P, vtag, all_metrics, probe_answers(vtag))
    k = 0
    for ans, target in scripts(rng, vtag, all_metrics, order, n_noise):
        P.dist((vtag, all_metrics, tuple(ans)))
        # every spelling of the version argument that denotes this version (4 == 4.0 ...)
        alts = DLG.VERSION_ARG_ALT[vtag]
        check_dialogue(P, vtag, all_metrics, ans, target, version_arg=alts[k % len(alts)])
        k += 1
        if k % 251 == 1:
            P.sample({"version": vtag, "all_metrics": all_metrics, "answers": ans})


def shard_mixed(P, idx, n, seed):
    """Many sessions of different versions / modes one after another in ONE process (a
    session must not depend on the sessions before it)."""
    import random
    rng = random.Random("C16-mixed-%s-%s" % (seed, idx))
    combos = [(vt, am) for vt in ("2", "3.0", "3.1", "4") for am in (False, True)]
    for vt, am in combos:  # order witnesses first (each is itself a judged session)
        DLG.question_order(vt, am)
    for j in range(n):
        # all-metrics session directly followed by a mandatory-only session and vice versa
        vt = rng.choice(("2", "3.0", "3.1", "4"))
        for am in rng.choice(((True, False), (False, True), (True, False, True), (False, False, True, False))):
            order, _ = DLG.question_order(vt, am)
            if order is None or set(order) != DLG.metric_set(vt, am):
                P.stratum("mixed:no-usable-order-witness")
                order = T.ORDER[DLG.VER_OF[vt]] if am else T.MANDATORY[DLG.VER_OF[vt]]
            ver = DLG.VER_OF[vt]
            ans = [rng.choice(T.VALUES[ver][q]) for q in order]
            P.stratum("mixed-sessions")
            P.dist(("mixed", idx, j, vt, am, tuple(ans)))
            check_dialogue(P, vt, am, ans)
            if rng.random() < 0.3:
                vt = rng.choice(("2", "3.0", "3.1", "4"))


def probe_answers(vtag):
    ver = DLG.VER_OF[vtag]
    vals = []
    for m in T.ORDER[ver]:
        for v in T.VALUES[ver][m]:
            if v not in vals:
                vals.append(v)
    return vals * (len(T.ORDER[ver]) + 1)


def run(R):
    R.rule = RULE
    R.require("outcome-model", "return-shape", "self-accept", "eof")
    R.assumptions = ["question order is not fixed by the property: taken from the returned vector / a probing run",
                     "answers with surrounding whitespace may be rejected or accepted as their stripped form"]
    R.pmap("shard", [(vt, am, R.pick(250, 120000), R.seed) for vt in ("2", "3.0", "3.1", "4") for am in (False, True)])
    R.pmap("shard_mixed", [(i, R.pick(60, 20000), R.seed) for i in range(16)])
    for vt in ("2", "3.0", "3.1", "4"):
        ver = DLG.VER_OF[vt]
        for am, mode in ((False, "mandatory"), (True, "all")):
            want = set((m, v) for m in (T.ORDER[ver] if am else T.MANDATORY[ver]) for v in T.VALUES[ver][m])
            got = R.P.extra.get("selected_%s_%s" % (vt, mode), set())
            if want - got and not R.P.nviol:
                R.inconclusive.append("version %s (%s): values never selected: %s" % (vt, mode, sorted(want - got)[:4]))
            R.coverage_extra["selectable_%s_%s" % (vt, mode)] = "%d of %d (metric, value) pairs selected" % (len(want & got), len(want))


# ---- in-memory seeded faults -------------------------------------------------
def _patch_src(frm, to):
    def f(L):
        import inspect
        import textwrap
        import cvss.interactive as it
        src = textwrap.dedent(inspect.getsource(it.ask_interactively))
        assert frm in src, frm
        src = src.replace(frm, to)
        ns = {}
        exec(src, it.__dict__, ns)
        it.ask_interactively = ns["ask_interactively"]
    return f


MUTANTS = {
    "empty_accepted_for_mandatory": _patch_src("if input_value in values:", "if input_value in values or (input_value in ('X', 'ND') and metric == 'AC'):"),
    "prefix_30_bug": _patch_src('vector_string = "CVSS:3.0/" + "/".join(vector)', 'vector_string = "CVSS:3.1/" + "/".join(vector)'),
    "last_mandatory_not_asked": _patch_src("metrics = METRICS_MANDATORY", "metrics = METRICS_MANDATORY[:-1]"),
    "no_upper": _patch_src(".strip().upper()", ".strip()"),
    "first_letter_only": _patch_src("if input_value in values:", "input_value = ([v for v in values if v[:1] == input_value[:1]] or [input_value])[0]\n            if input_value in values:"),
    "metric_asked_twice": _patch_src("vector.append(metric + \":\" + input_value)", "vector.append(metric + \":\" + input_value); vector.extend([vector[-1]] if metric == 'RL' else [])"),
    "invalid_then_default": _patch_src("if input_value in values:", "if input_value == 'ZZ' and values.get('X'):\n                input_value = 'X'\n            if input_value in values:"),
}
