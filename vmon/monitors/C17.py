"""C17 -- the command-line calculator reports what the library computes and never crashes.

Events: real subprocesses `python -m cvss.cvss_calculator ...` (exit status, stdout,
stderr) and, for volume, in-process cvss_calculator.main() with patched argv / stdio.
Oracle (per run):
  clean-exit     exit status 0, no traceback, nothing escapes main()
  dispatch       output is what ONE of the flagged versions (default 3.1) produces
  report         valid vector => score lines with ratings, 'Cleaned vector', 'Red Hat
                 vector' equal to the API values of the dispatched class
  json           -j => the JSON document equals as_json(sort=True, minimal=True) with
                 ascending keys
  error-message  invalid vector => stdout is the library's error message
  interactive    no -v => the result reported is the one the C16 dialogue model predicts;
                 end of input => clean exit without a result
"""
import io
import json
import os
import re
import subprocess
import sys

from .. import obs
from .. import bootstrap
from ..bootstrap import lib
from ..spec import dialogue as M
from ..spec import tables as T
from ..workloads import dialogue as DLG
from ..workloads import vectors as V

ORACLES = ("tables",)
RULE = ("a case is (argv, stdin answers, mode subprocess|inprocess); distinct = distinct (argv, answers); non-trivial = the "
        "calculator ran and its exit status / stdout / stderr were judged against the API values. Command lines: all 8 "
        "version-flag combinations x {-j,-a,-n} subsets x vectors valid for the flagged version, valid for another version, "
        "mutants, junk; interactive scripts incl. end of input at every prompt index.")

FLAG_VTAG = {"2": "2", "3": "3.0", "4": "4"}
SCORE_NAMES = ["Base Score", "Temporal Score", "Environmental Score"]
LINE = re.compile(r"^(Base Score|Temporal Score|Environmental Score):\s+(\S+)(?:\s+\((\w+)\))?\s*$")


def parse_argv(argv):
    """Own reading of a command line built from -2/-3/-4, -v VECTOR, -j, -a, -n (short
    flags may be clustered, a value may be glued to -v; long forms --vector[=V], --json,
    --all, --no-colors)."""
    out = {"versions": [], "vector": None, "json": False, "all": False, "no_colors": False}
    i = 0
    while i < len(argv):
        a = argv[i]
        if a.startswith("--"):
            if a == "--vector" and i + 1 < len(argv):
                out["vector"] = argv[i + 1]
                i += 1
            elif a.startswith("--vector="):
                out["vector"] = a[len("--vector="):]
            elif a == "--json":
                out["json"] = True
            elif a == "--all":
                out["all"] = True
            elif a == "--no-colors":
                out["no_colors"] = True
        elif a.startswith("-") and len(a) > 1:
            j = 1
            while j < len(a):
                c = a[j]
                if c in "234":
                    if c not in out["versions"]:
                        out["versions"].append(c)
                elif c == "j":
                    out["json"] = True
                elif c == "a":
                    out["all"] = True
                elif c == "n":
                    out["no_colors"] = True
                elif c == "v":
                    rest = a[j + 1:]
                    if rest:
                        out["vector"] = rest[1:] if rest.startswith("=") else rest
                    elif i + 1 < len(argv):
                        out["vector"] = argv[i + 1]
                        i += 1
                    break
                j += 1
        i += 1
    return out


def candidates(argv):
    flags = sorted(parse_argv(argv)["versions"])
    if not flags:
        return ["3.1"]
    return [FLAG_VTAG[f] for f in flags]


def vector_arg(argv):
    return parse_argv(argv)["vector"]


def cluster(rng, argv):
    """An equivalent spelling of the command line: short flags clustered (-2j, -4nj), the
    value glued to -v (-vVECTOR) or -v clustered last (-jv VECTOR)."""
    shorts, rest, vec = [], [], None
    i = 0
    while i < len(argv):
        a = argv[i]
        if a in ("-2", "-3", "-4", "-j", "-a", "-n"):
            shorts.append(a[1])
        elif a == "-v" and i + 1 < len(argv):
            vec = argv[i + 1]
            i += 1
        else:
            rest.append(a)
        i += 1
    out = list(rest)
    if vec is not None and (vec == "" or vec.startswith("-") or vec.startswith("=")):
        return argv  # keep the plain spelling for values argparse treats specially
    if vec is None:
        if shorts:
            out.append("-" + "".join(shorts))
        return out
    r = rng.random()
    if r < 0.4:
        if shorts:
            out.append("-" + "".join(shorts))
        out.append("-v" + vec)
    elif r < 0.8:
        out.append("-" + "".join(shorts) + "v")
        out.append(vec)
    else:
        out.append("-" + "".join(shorts) + "v" + vec)
    return out


# environments a user's shell may legitimately have (chosen as a function of the command line, so that a replay makes
# the same choice): locale variables naming locales that are not installed on this machine (ssh forwards LANG / LC_*
# from the client), a message language, no HOME, another time zone.  None = variable removed.
ENV_PROFILES = [{}, {}, {"LC_ALL": "xx_XX.UTF-8"}, {"LC_ALL": None, "LANG": "en_US.UTF-8"}, {"LC_ALL": None, "LC_CTYPE": "UTF-8"},
                {"LANGUAGE": "de:fr", "LANG": "de_DE.UTF-8", "LC_ALL": None}, {"LC_ALL": None, "LC_MESSAGES": "ja_JP.eucJP", "LANG": "C"},
                {"HOME": "/nonexistent", "TZ": "Asia/Kolkata"}, {"LC_ALL": "POSIX", "LANG": None}, {"LC_ALL": "tr_TR.ISO8859-9"}]


INTERPRETER_FLAGS = [[], [], ["-O"], ["-OO"], ["-bb"], ["-W", "error"], ["-X", "dev"], ["-s", "-S"]]


def stdin_text(argv, answers):
    """The answers as the text standard input delivers: a line each; for one script in five the LAST line has no line
    end (an answers file without a final newline, `printf 'N\\nL'`), which is still a line."""
    import zlib
    t = "".join(a + "\n" for a in answers)
    if answers and answers[-1] and zlib.crc32(repr((list(answers), list(argv), "eol")).encode("utf-8", "replace")) % 5 == 0:
        t = t[:-1]
    return t


def env_profile(argv, answers):
    import zlib
    return ENV_PROFILES[zlib.crc32(repr((list(argv), list(answers))).encode("utf-8", "replace")) % len(ENV_PROFILES)]


def _apply_env(env, prof):
    for k, v in prof.items():
        if v is None:
            env.pop(k, None)
        else:
            env[k] = v


def run_inprocess(argv, answers):
    saved = dict(os.environ)
    _apply_env(os.environ, env_profile(argv, answers))
    try:
        return run_inprocess_(argv, answers)
    finally:
        for k in list(os.environ):
            if k not in saved:
                del os.environ[k]
        for k, v in saved.items():
            if os.environ.get(k) != v:
                os.environ[k] = v


def run_inprocess_(argv, answers):
    L = lib()
    fin = io.StringIO(stdin_text(argv, answers))
    fout, ferr = io.StringIO(), io.StringIO()
    raw = None
    if all(ord(ch) < 128 for ch in "".join(list(argv) + list(answers))):
        # an ASCII-only command line on a terminal that can show ASCII only (LANG=C): what the calculator prints
        # for it must be printable there -- writing anything else raises UnicodeEncodeError, as it would for real
        raw = io.BytesIO()
        fout = io.TextIOWrapper(raw, encoding="ascii", errors="strict", newline="", write_through=True)
    enc, unencodable = "ascii", False
    if raw is None:
        # a command line with non-ASCII characters on a terminal whose encoding cannot show all of them (one in three;
        # a Latin-1 / cp1252 / ASCII terminal): finding F11 on the unchanged tree, keyed by this mechanism in judge()
        import zlib
        h = zlib.crc32(repr((list(argv), list(answers), "enc")).encode("utf-8", "replace"))
        if h % 3 == 0:
            enc = ("ascii", "latin-1", "cp1252")[(h // 3) % 3]
            try:
                "".join(list(argv) + list(answers)).encode(enc)
            except UnicodeEncodeError:
                unencodable = True
            if unencodable:
                raw = io.BytesIO()
                fout = io.TextIOWrapper(raw, encoding=enc, errors="strict", newline="", write_through=True)
    old = sys.argv, sys.stdin, sys.stdout, sys.stderr
    sys.argv = ["cvss_calculator"] + list(argv)
    sys.stdin, sys.stdout, sys.stderr = fin, fout, ferr
    r = {"exit": 0, "exc": None, "stdout_cannot_encode_the_command_line": enc if unencodable else None}
    try:
        try:
            L.calculator.main()
        except SystemExit as e:
            r["exit"] = e.code if isinstance(e.code, int) else (0 if e.code is None else 1)
        except BaseException as e:  # noqa -- anything escaping main() is the defect we look for
            r["exc"] = type(e).__name__ + ": " + str(e)[:200]
    finally:
        sys.argv, sys.stdin, sys.stdout, sys.stderr = old
    r["out"], r["err"] = (raw.getvalue().decode(enc, "replace") if raw is not None else fout.getvalue()), ferr.getvalue()
    return r


def run_subprocess(argv, answers):
    env = dict(os.environ)
    env.update({"PYTHONPATH": bootstrap.REPO, "PYTHONIOENCODING": "utf-8", "LC_ALL": "C.UTF-8", "PYTHONDONTWRITEBYTECODE": "1"})
    _apply_env(env, env_profile(argv, answers))
    # ... and interpreter flags an installation may start the console script with (chosen by the command line as well)
    import zlib
    flags = INTERPRETER_FLAGS[zlib.crc32(repr((list(answers), list(argv))).encode("utf-8", "replace")) % len(INTERPRETER_FLAGS)]
    try:
        p = subprocess.run([sys.executable, "-B"] + flags + ["-m", "cvss.cvss_calculator"] + list(argv), cwd=bootstrap.REPO, env=env,
                           input=stdin_text(argv, answers).encode("utf-8"), stdout=subprocess.PIPE,
                           stderr=subprocess.PIPE, timeout=120)
    except subprocess.TimeoutExpired:
        return {"exit": None, "exc": "watchdog", "out": "", "err": ""}
    return {"exit": p.returncode, "exc": None, "out": p.stdout.decode("utf-8", "replace"), "err": p.stderr.decode("utf-8", "replace")}


def expected_report(ver, o):
    """What the API reports for object o: dict of expected items."""
    sc = o.scores()
    sv = o.severities() if ver != "2" else None
    exp = {"scores": [], "clean": o.clean_vector(), "rh": o.rh_vector()}
    for i, x in enumerate(sc):
        exp["scores"].append((SCORE_NAMES[i], x, sv[i] if sv else None))
    return exp


ANSI = re.compile(r"\x1b\[[0-9;]*m")
SCORE_TAIL = re.compile(r"^.*?[:\s](\d+\.\d|None)(?:\s+\((\w+)\))?\s*$")


def find_json(out_lines):
    """First JSON object printed at the start of a line that has a 'vectorString' member:
    (pairs, None) or (None, why).  Text before / after the document is ignored."""
    text = "\n".join(out_lines)
    dec = json.JSONDecoder(object_pairs_hook=list)
    pos = 0
    seen_brace = False
    while True:
        i = text.find("{", pos)
        if i < 0:
            return None, ("json-section-not-parsable" if seen_brace else "json-section-missing")
        if i == 0 or text[i - 1] == "\n":
            seen_brace = True
            try:
                pairs, _ = dec.raw_decode(text[i:])
                if isinstance(pairs, list) and any(k == "vectorString" for k, _v in pairs):
                    return pairs, None
            except ValueError:
                pass
        pos = i + 1


def judge_json(out_lines, o, ver=None, any_field_order=False):
    probs = []
    pairs, why = find_json(out_lines)
    if pairs is None:
        return [("json", why)]
    doc = dict(pairs)
    keys = [k for k, _ in pairs]
    want = json.loads(json.dumps(o.as_json(sort=True, minimal=True)))
    full = json.loads(json.dumps(o.as_json(sort=True, minimal=False)))
    if any_field_order and ver and isinstance(doc.get("vectorString"), str):
        # interactive entry: the vector string is whatever the builder returned; the field ORDER
        # of that string is not fixed by any property, only its fields are
        vs = doc["vectorString"]
        if T.classify(ver, vs) == T.ACCEPT and T.classify(ver, want["vectorString"]) == T.ACCEPT and \
                T.canon_key(ver, vs) == T.canon_key(ver, want["vectorString"]) and \
                sorted(T.parse(ver, vs)[1]) == sorted(T.parse(ver, want["vectorString"])[1]):
            want["vectorString"] = vs
            full["vectorString"] = vs
    if doc != want:
        probs.append(("json", "json-is-the-non-minimal-document" if doc == full else "json-differs-from-sorted-minimal-as_json"))
    if keys != sorted(keys):
        probs.append(("json", "json-keys-not-ascending"))
    return probs


def judge_report(out_lines, ver, o, want_json, any_field_order=False):
    """Problems of a result section against object o.  The property fixes WHAT is printed
    (scores with ratings, cleaned vector, Red Hat vector, JSON), not labels, padding or
    additional lines: two readings are tried -- by the labels in use at the pinned commit,
    and label-free -- and the output is accepted if either explains it."""
    out_lines = [ANSI.sub("", ln) for ln in out_lines]
    a = judge_report_labels(out_lines, ver, o)
    if a:
        b = judge_report_labelfree(out_lines, ver, o)
        if not b:
            a = []
    if want_json:
        a = a + judge_json(out_lines, o, ver, any_field_order)
    return a


def judge_report_labelfree(out_lines, ver, o):
    probs = []
    exp = expected_report(ver, o)
    tokens = set(t for ln in out_lines for t in ln.split())
    if exp["clean"] not in tokens:
        probs.append(("report", "cleaned-vector-differs-from-api"))
    if exp["rh"] not in tokens:
        probs.append(("report", "red-hat-vector-differs-from-api"))
    seq = []
    for ln in out_lines:
        if ln.lstrip().startswith(("{", "}", '"')):
            break  # JSON section
        m = SCORE_TAIL.match(ln)
        if m and exp["rh"] not in ln and exp["clean"] not in ln:
            seq.append((m.group(1), m.group(2)))
    want_all = [(repr(sc) if sc is not None else "None", rt) for _n, sc, rt in exp["scores"]]
    want_defined = [(repr(sc), rt) for _n, sc, rt in exp["scores"] if sc is not None]
    if seq != want_all and seq != want_defined:
        probs.append(("report", "score-lines-differ-from-api"))
    return probs


def judge_report_labels(out_lines, ver, o):
    probs = []
    exp = expected_report(ver, o)
    found = {}
    clean = rh = None
    for i, ln in enumerate(out_lines):
        m = LINE.match(ln)
        if m:
            found[m.group(1)] = (m.group(2), m.group(3))
        elif ln.startswith("Cleaned vector:"):
            clean = ln[len("Cleaned vector:"):].strip()
        elif ln.startswith("Red Hat vector:"):
            rh = ln[len("Red Hat vector:"):].strip()
    for name, score, rating in exp["scores"]:
        got = found.pop(name, None)
        if score is None:
            if got is not None and got[0] != "None":
                probs.append(("report", "undefined-%s-printed-as-number" % name.split()[0].lower()))
            continue
        if got is None:
            probs.append(("report", "%s-line-missing" % name.split()[0].lower()))
            continue
        try:
            same = float(got[0]) == score and got[0] == repr(score)
        except ValueError:
            same = False
        if not same:
            probs.append(("report", "%s-score-differs-from-api" % name.split()[0].lower()))
        if rating is not None and got[1] != rating:
            probs.append(("report", "%s-rating-differs-from-api" % name.split()[0].lower()))
    for name in found:
        probs.append(("report", "unexpected-%s-line" % name.split()[0].lower()))
    if clean != exp["clean"]:
        probs.append(("report", "cleaned-vector-differs-from-api"))
    if rh != exp["rh"]:
        probs.append(("report", "red-hat-vector-differs-from-api"))
    return probs


def judge(P, argv, answers, r, mode):
    L = lib()
    case = {"argv": argv, "answers": answers, "mode": mode}
    P.ev("clean-exit")
    if r["exc"] == "watchdog":
        P.notes.append("INCONCLUSIVE:CLI subprocess watchdog fired")
        return
    if r["exc"]:
        if r.get("stdout_cannot_encode_the_command_line") and r["exc"].startswith("UnicodeEncodeError"):
            P.violation("clean-exit", "C17:command-line-with-characters-the-terminal-cannot-encode:UnicodeEncodeError",
                        dict(case, stdout_encoding=r["stdout_cannot_encode_the_command_line"]), error=r["exc"])
            return
        P.violation("clean-exit", "C17:exception-escapes-main:%s" % r["exc"].split(":")[0], case, error=r["exc"])
        return
    if r["exit"] != 0:
        P.violation("clean-exit", "C17:exit-status-%s" % r["exit"], case, stderr=r["err"][-400:], stdout=r["out"][-300:])
        return
    if "Traceback (most recent call last)" in r["err"] or "Traceback (most recent call last)" in r["out"]:
        P.violation("clean-exit", "C17:traceback-printed", case, stderr=r["err"][-600:])
        return
    pa = parse_argv(argv)
    vec = pa["vector"]
    want_json = pa["json"]
    all_metrics = pa["all"]
    cands = candidates(argv)
    out_lines = r["out"].split("\n")
    verdicts = []
    for vt in cands:
        ver = DLG.VER_OF[vt]
        probs = []
        if vec:  # '' means interactive (argparse cannot tell -v '' from no -v)
            ok, o = obs.call(L.CLS[ver], vec)
            if ok:
                P.stratum("valid-vector")
                probs = judge_report(out_lines, ver, o, want_json)
            else:
                P.stratum("invalid-vector")
                if not isinstance(o, L.CVSSError):
                    probs = [("error-message", "foreign-exception-in-api")]
                elif str(o) not in ANSI.sub("", r["out"]):
                    # (the message must be printed; decoration around it is unspecified)
                    probs = [("error-message", "stdout-is-not-the-library-error-message")]
                elif any(ln.startswith(("Cleaned vector:", "Red Hat vector:")) for ln in out_lines):
                    probs = [("error-message", "result-lines-printed-for-an-invalid-vector")]
        else:
            order, _ = DLG.question_order(vt, all_metrics)
            if order is None:
                probs = [("interactive", "no-order-witness")]
            else:
                outs = M.simulate(ver, order, answers)
                done = [o_ for o_ in outs if o_[0] is not None]
                eof = [o_ for o_ in outs if o_[0] is None]
                has_result = any(ln.startswith("Cleaned vector:") for ln in out_lines) or any(
                    T.spell(DLG.PREFIX_OF[vt], list(o_[0])) in r["out"].split() for o_ in done)
                if not has_result:
                    P.stratum("interactive-eof")
                    if not eof:
                        probs = [("interactive", "no-result-although-answers-suffice")]
                else:
                    P.stratum("interactive-completed")
                    if not done:
                        probs = [("interactive", "result-although-answers-run-out")]
                    else:
                        best = None
                        for o_ in done:
                            s = T.spell(DLG.PREFIX_OF[vt], list(o_[0]))
                            ok, o = obs.call(L.CLS[ver], s)
                            pr = judge_report(out_lines, ver, o, want_json, True) if ok else [("interactive", "model-vector-rejected")]
                            if best is None or len(pr) < len(best):
                                best = pr
                        probs = best
        verdicts.append((vt, probs))
    good = [vt for vt, probs in verdicts if not probs]
    for mon in ("dispatch", "report", "json", "error-message", "interactive"):
        P.ev(mon)
    if good:
        return
    # no flagged version explains the output
    vt, probs = min(verdicts, key=lambda x: len(x[1]))
    # is it explained by a NON-flagged version?  (dispatch fault)
    if vec:
        for other in ("2", "3.0", "3.1", "4"):
            if other in cands or (DLG.VER_OF[other] in [DLG.VER_OF[c] for c in cands]):
                continue
            ok, o = obs.call(L.CLS[DLG.VER_OF[other]], vec)
            if (ok and not judge_report(out_lines, DLG.VER_OF[other], o, want_json)) or (not ok and str(o) in r["out"]):
                P.violation("dispatch", "C17:flags-%s-handled-as-version-%s" % ("+".join(c for c in cands), DLG.VER_OF[other]), case,
                            stdout=r["out"][-500:])
                return
    for mon, why in probs[:3]:
        P.violation(mon, "C17:%s:v%s:%s" % (mon, DLG.VER_OF[vt], why), case, stdout=r["out"][-700:], stderr=r["err"][-200:])


def check_cli(P, argv, answers, mode):
    P.evaluations += 1
    r = run_subprocess(argv, answers) if mode == "subprocess" else run_inprocess(argv, answers)
    judge(P, argv, answers, r, mode)


def check_case(P, case):
    if case.get("mode") == "subprocess-raw-stdin":
        check_raw_stdin(P, case["argv"], case["stdin_bytes"].encode("latin-1"))
        return
    check_cli(P, case["argv"], case["answers"], case["mode"])


def varg(s):
    return ["--vector=" + s] if s.startswith("-") else (["-v", s] if len(s) % 2 else ["--vector", s])


def cases(rng, n, subprocess_safe):
    """Yield (argv, answers)."""
    vflags = [[], ["-2"], ["-3"], ["-4"], ["-2", "-3"], ["-3", "-4"], ["-2", "-4"], ["-2", "-3", "-4"]]
    oflags = [[], ["-j"], ["-a"], ["-n"], ["-j", "-a", "-n"], ["--json", "--no-colors"], ["--all", "-j"]]
    k = 0
    while k < n:
        vf = vflags[k % len(vflags)]
        of = rng.choice(oflags)
        cands = candidates(vf)
        r = rng.random()
        answers = []
        if r < 0.45:
            vt = rng.choice(cands)
            ver = DLG.VER_OF[vt]
            p = DLG.PREFIX_OF[vt] if rng.random() < 0.7 else V.rand_prefix(rng, ver)
            m = V.rand_metrics(rng, ver, p_opt=rng.choice((0.0, 0.5, 0.9)), p_nd=0.3)
            argv = vf + of + varg(V.spell(p, m, "shuffle", rng))
        elif r < 0.55:
            ver = rng.choice(T.VERSIONS)
            p_, m, s = V.rand_vector(rng, ver)
            argv = vf + of + varg(s)  # possibly another version's vector
        elif r < 0.72:
            vt = rng.choice(cands)
            ver = DLG.VER_OF[vt]
            p_, m, s = V.rand_vector(rng, ver)
            muts = list(V.field_mutants(ver, p_, T.parse(ver, s)[1], rng))
            s2 = rng.choice(muts)[1]
            if subprocess_safe and ("\x00" in s2 or not s2):
                s2 = s + "/"
            argv = vf + of + varg(s2 if s2 else "x")
        elif r < 0.78:
            junk = rng.choice(["x", "/", ":", "CVSS:3.1/", "-", "--x", "-x", "7.5/AV:N", "é", "AV:N/AC:L/Au:N/C:P/I:P/A:P/", "%s", "{0}",
                               "CVSS:4.0/AV:N", "a b", "\"", "$(id)", "*"])
            argv = vf + of + varg(junk)
        else:
            # interactive
            vt = rng.choice(cands)
            ver = DLG.VER_OF[vt]
            am = ("-a" in of) or ("--all" in of)
            order, _ = DLG.question_order(vt, am)
            if order is None:
                order = T.ORDER[ver] if am else T.MANDATORY[ver]
            tgt = {q: rng.choice(T.VALUES[ver][q]) for q in T.ORDER[ver]}
            answers = DLG.script_for(order, tgt, rng, noise=0.15, case=rng.choice(("asis", "lower", "upper", "mixed")), ver=ver)
            rr = rng.random()
            if rr > 0.97:
                answers = [rng.choice(["?", "zz", "0"])] * 1300 + answers  # the same wrong answer for a long time first
            if rr < 0.35:
                answers = answers[:rng.randrange(len(answers) + 1)]
            argv = vf + of + (["-v", ""] if rng.random() < 0.1 else [])
        k += 1
        if rng.random() < 0.25:
            clustered = cluster(rng, argv)
            if parse_argv(clustered) == parse_argv(argv):
                argv = clustered
        yield argv, answers


def shard(P, idx, n, mode, seed):
    import random
    rng = random.Random("C17-%s-%s-%s" % (seed, mode, idx))
    for argv, answers in cases(rng, n, mode == "subprocess"):
        P.dist((tuple(argv), tuple(answers)))
        P.stratum("%s:flags:%s" % (mode, "+".join("-" + f for f in sorted(parse_argv(argv)["versions"])) or "none"))
        if any(len(a) > 2 and a[0] == "-" and a[1] != "-" for a in argv):
            P.stratum("%s:clustered-or-glued-short-options" % mode)
        check_cli(P, argv, answers, mode)
        if P.evaluations % 97 == 1:
            P.sample({"argv": argv, "answers": answers, "mode": mode})
    if idx == 1 and mode == "subprocess":
        raw_stdin_stage(P, seed)
    if idx == 0:
        # end of input at every prompt index, all versions
        for vf, vt in (([], "3.1"), (["-2"], "2"), (["-3"], "3.0"), (["-4"], "4")):
            for of in ([], ["-a"]):
                order, _ = DLG.question_order(vt, bool(of))
                if order is None:
                    continue
                ver = DLG.VER_OF[vt]
                full = [T.VALUES[ver][q][0] for q in order]
                idxs = range(len(full) + 1) if mode == "inprocess" else [0, 1, len(full) // 2, len(full) - 1, len(full)]
                for i in idxs:
                    P.stratum("eof-at-prompt-index")
                    check_cli(P, vf + of + ["-n"], full[:i], mode)


def check_raw_stdin(P, argv, stdin_bytes):
    """Interactive entry fed BYTES that are not text in the terminal's encoding (Latin-1 pasted into a UTF-8 terminal, a
    stray byte in an answers file): judged for a clean exit only -- status 0, no traceback (finding F12 on the unchanged
    tree, keyed by this mechanism)."""
    env = dict(os.environ)
    env.update({"PYTHONPATH": bootstrap.REPO, "PYTHONIOENCODING": "utf-8", "LC_ALL": "C.UTF-8", "PYTHONDONTWRITEBYTECODE": "1"})
    case = {"argv": argv, "stdin_bytes": stdin_bytes.decode("latin-1"), "mode": "subprocess-raw-stdin"}
    P.evaluations += 1
    P.ev("clean-exit")
    P.stratum("interactive-input-with-undecodable-bytes")
    try:
        p = subprocess.run([sys.executable, "-B", "-m", "cvss.cvss_calculator"] + list(argv), cwd=bootstrap.REPO, env=env,
                           input=stdin_bytes, stdout=subprocess.PIPE, stderr=subprocess.PIPE, timeout=120)
    except subprocess.TimeoutExpired:
        P.notes.append("INCONCLUSIVE:CLI subprocess watchdog fired")
        return
    err = p.stderr.decode("utf-8", "replace")
    if p.returncode != 0 or "Traceback (most recent call last)" in err:
        last = err.strip().split("\n")[-1] if err.strip() else ""
        try:
            stdin_bytes.decode("utf-8")
            undecodable = False
        except UnicodeDecodeError:
            undecodable = True
        if undecodable and last.startswith("UnicodeDecodeError"):
            P.violation("clean-exit", "C17:interactive-input-bytes-not-decodable-in-the-terminal-encoding:UnicodeDecodeError", case,
                        stderr=err[-300:])
        else:
            P.violation("clean-exit", "C17:exit-status-%s" % p.returncode if p.returncode else "C17:traceback-printed", case,
                        stderr=err[-400:])


def raw_stdin_stage(P, seed):
    import random
    rng = random.Random("C17-raw-%s" % seed)
    for vf, vt in (([], "3.1"), (["-2"], "2"), (["-3"], "3.0"), (["-4"], "4")):
        for of in ([], ["-a"]):
            order, _ = DLG.question_order(vt, bool(of))
            if order is None:
                continue
            ver = DLG.VER_OF[vt]
            full = [T.VALUES[ver][q][0].encode("ascii") for q in order]
            k = rng.randrange(len(full))
            stray = rng.choice([b"\xff", b"\xe9", b"N\xe4", b"\xc3", b"\xed\xa0\x80"])
            for lines in (full[:k] + [stray] + full[k:], full[:k] + [full[k] + stray] + full[k + 1:]):
                check_raw_stdin(P, vf + of + ["-n"], b"".join(x + b"\n" for x in lines))


def run(R):
    R.rule = RULE
    R.require("clean-exit", "dispatch", "report", "json", "error-message", "interactive")
    R.assumptions = ["several version flags: any flagged version is accepted (unspecified)", "-v '' is interactive mode "
                     "(argparse-equivalent to no -v)", "real child processes get UTF-8 stdio (in-process runs also use ASCII / Latin-1 / cp1252 streams); vectors are valid Unicode",
                     "an undefined v2 score may be printed as None or omitted",
                     "the literal value '--' is not generated: argparse itself drops it before the calculator runs"]
    R.pmap("shard", [(i, R.pick(25, 1200), "subprocess", R.seed) for i in range(16)])
    R.pmap("shard", [(i, R.pick(1300, 60000), "inprocess", R.seed) for i in range(16)])
    for s in ("valid-vector", "invalid-vector", "interactive-eof", "interactive-completed"):
        if R.P.strata.get(s, 0) == 0:
            R.inconclusive.append("no %s run observed" % s)


# ---- in-memory seeded faults (in-process mode sees them; subprocess mode does not) --------
def _patch_main(frm, to):
    def f(L):
        import inspect
        import textwrap
        import cvss.cvss_calculator as cc
        src = textwrap.dedent(inspect.getsource(cc.main))
        assert frm in src, frm
        src = src.replace(frm, to)
        ns = {}
        exec(src, cc.__dict__, ns)
        cc.main = ns["main"]
    return f


MUTANTS = {
    "dash4_dispatches_to_CVSS3": _patch_main('version_mapping = {"2": 2, "3": 3.0, "3.1": 3.1, "4": 4.0}', 'version_mapping = {"2": 2, "3": 3.0, "3.1": 3.1, "4": 3.1}'),
    "temporal_line_skipped": _patch_main('for i, score_name in enumerate(["Base Score", "Temporal Score", "Environmental Score"]):',
                                         'for i, score_name in enumerate(["Base Score", "Temporal Score", "Environmental Score"]):\n                if i == 1 and version >= 3.0:\n                    continue'),
    "json_not_minimal": _patch_main("as_json(sort=True, minimal=True)", "as_json(sort=True)"),
    "json_not_sorted": _patch_main("as_json(sort=True, minimal=True)", "as_json(sort=False, minimal=True)"),
    "except_only_CVSS3Error": _patch_main("except CVSSError as e:", "except __import__('cvss').CVSS3Error as e:"),
    "eof_not_caught": _patch_main("except (KeyboardInterrupt, EOFError):", "except KeyboardInterrupt:"),
    "clean_vector_line_shows_input": _patch_main("cvss_vector.clean_vector())", "vector_string)"),
    "rating_of_base_for_all": _patch_main('"({0})".format(severities[i])', '"({0})".format(severities[0])'),
}
