"""C18 -- a constructed object is an immutable value with total, pure accessors.

Sequence monitor over accessor calls on ONE instance:
  total           every accessor returns without raising
  pair-stable     for EVERY ordered pair (A, B) of accessor variants, on a fresh object:
                  the result of B after A equals B's result on a fresh object
  sequence-stable along random call sequences (length 5-40, with mutation of returned
                  dictionaries interleaved) the k-th result of an accessor equals its
                  first result and the fresh-object result
  json-isolated   mutating a dictionary returned by as_json() (clear / overwrite / insert /
                  delete) does not affect later results
Internal attribute changes are COUNTED in the evidence but are not a verdict.
"""
import copy

from .. import obs
from ..bootstrap import lib
from ..spec import tables as T
from ..workloads import vectors as V

ORACLES = ("tables",)
RULE = ("a case is (accepted vector, sequence of accessor calls / dictionary mutations on one instance); distinct = distinct "
        "(vector, sequence); non-trivial = at least two accessor calls whose results were compared with the fresh-object "
        "baseline. Every ordered pair of the 13-15 accessor variants is exercised for every sampled vector.")


def _json(sort, minimal):
    def f(o):
        d = o.as_json(sort=sort, minimal=minimal)
        return ("json", type(d).__name__, list(d.items()) if sort else sorted(d.items(), key=lambda kv: kv[0]), copy.deepcopy(dict(d)))
    return f


FOREIGN = [x for x in V.foreign_operands() if x == x]  # (NaN compares unequal to itself: kept out of a result that is compared)


def accessors(ver, twin):
    """[(name, fn(obj) -> comparable result)]; twin: an equal object built separately."""
    acc = [("scores", lambda o: o.scores()), ("severities", lambda o: o.severities()),
           ("clean_vector", lambda o: o.clean_vector()), ("rh_vector", lambda o: o.rh_vector()),
           ("as_json", _json(False, False)), ("as_json_sort", _json(True, False)),
           ("as_json_minimal", _json(False, True)), ("as_json_sort_minimal", _json(True, True)),
           # option values that are not bools but mean the same by truth value (None, 0, 1, 2: what argparse results,
           # configuration files and `flag and other` expressions hand over)
           ("as_json_truthy_options", lambda o: [(type(d).__name__ if s_ else "dict", sorted(d.items()), list(d) if s_ else None)
                                                 for s_, m_ in ((None, 0), (1, None), (2, 1), (0, 2))
                                                 for d in [o.as_json(sort=s_, minimal=m_)]]),
           ("hash", lambda o: hash(o)), ("eq_self", lambda o: o == o), ("eq_twin", lambda o: (o == twin, twin == o)),
           ("eq_foreign", lambda o: [(o == x, x == o, o != x, x != o) for x in FOREIGN])]
    if ver != "2":
        acc.append(("clean_vector_noprefix", lambda o: o.clean_vector(output_prefix=False)))
    if ver in ("2", "3"):
        acc.append(("temporal_vector", lambda o: o.temporal_vector()))
        acc.append(("environmental_vector", lambda o: o.environmental_vector()))
    return acc


def same(a, b):
    return a == b and type(a) is type(b)


def snapshot(o):
    try:
        return copy.deepcopy(vars(o))
    except Exception:
        return None


# the per-instance state of the classes at the pinned commit that is public (the property's anchor: "metrics,
# original_metrics, *_score: per-instance state that accessors must not change"); attributes a change ADDS are not
# watched (a cache may fill), private ones neither (lazy computation may fill them)
PUBLIC_STATE = {"2": ["base_score", "environmental_score", "metrics", "temporal_score", "vector"],
                "3": ["base_score", "environmental_score", "esc", "isc", "isc_base", "metrics", "minor_version", "missing_metrics",
                      "modified_esc", "modified_isc", "modified_isc_base", "modified_scope", "original_metrics", "scope",
                      "temporal_score", "vector"],
                "4": ["base_score", "metrics", "missing_metrics", "original_metrics", "severity", "vector"]}
_ABSENT = "<absent>"


def public_state(ver, o, k=0):
    """The public attributes read the way a caller reads them; k rotates (odd k: also reverses) the order in which they are
    read -- reading one attribute must not change what another one shows."""
    out = {}
    names = PUBLIC_STATE[ver][k % len(PUBLIC_STATE[ver]):] + PUBLIC_STATE[ver][:k % len(PUBLIC_STATE[ver])]
    for n in (reversed(names) if k % 2 else names):
        try:
            v = getattr(o, n)
            out[n] = (type(v).__name__, copy.deepcopy(v))
        except AttributeError:
            out[n] = _ABSENT
        except Exception as e:  # noqa
            out[n] = "<raises %s>" % type(e).__name__
    return out


MUTATIONS = ["clear", "overwrite", "insert", "delete", "nested"]


def mutate(d, how):
    if how == "clear":
        d.clear()
    elif how == "overwrite":
        for k in list(d):
            d[k] = "MUTATED"
    elif how == "insert":
        d["zzz_inserted"] = 1
        d["aaa_inserted"] = [1, 2]
    elif how == "delete":
        for k in list(d)[:3]:
            del d[k]
    elif how == "nested":
        d["vectorString"] = None
        d["baseScore"] = -1


def check_vector(P, ver, s, rng, n_seq, near_miss=False):
    """near_miss: s is NOT a vector of the grammar (padding, letter case, separators ...); if the constructor
    accepts it all the same, it is an accepted vector and the property applies to it; if not, nothing is judged."""
    L = lib()
    case0 = {"ver": ver, "vector": s}
    if near_miss:
        case0["near_miss"] = True
    ok, twin = obs.call(L.CLS[ver], s)
    if not ok:
        if near_miss:
            P.stratum("near-miss-rejected")
            return
        P.violation("construct", "C18:v%s:exception:%s" % (ver, obs.exc_name(twin)), case0, error=repr(twin))
        return
    if near_miss:
        P.stratum("accepted-near-miss-judged")
    acc = accessors(ver, twin)
    names = [n for n, _ in acc]
    fns = dict(acc)
    base = {}
    for n, f in acc:
        P.evaluations += 1
        P.ev("total")
        ok, r = obs.call(f, L.CLS[ver](s))
        if not ok:
            P.violation("total", "C18:v%s:%s-raises:%s" % (ver, n, obs.exc_name(r)), dict(case0, sequence=[n]), error=repr(r))
            return
        base[n] = r
    if "as_json_truthy_options" in base:
        P.ev("truthy-options")
        want = []
        for s_, m_ in ((False, False), (True, False), (True, True), (False, True)):
            ok, d = obs.call(L.CLS[ver](s).as_json, sort=s_, minimal=m_)
            want.append((type(d).__name__ if s_ else "dict", sorted(d.items()), list(d) if s_ else None) if ok else None)
        if base["as_json_truthy_options"] != want:
            P.violation("total", "C18:v%s:as_json-options-given-as-truthy-or-falsy-values-differ-from-bools" % ver, dict(case0, sequence=["as_json_truthy_options"]))
    # objects obtained in other ways (copies, pickles, from_rh_vector, the extractor): every accessor returns without raising
    if P.evaluations % 3 == 0:
        how = obs.BUILT[(P.evaluations // 3) % len(obs.BUILT)]
        ok, o2 = obs.call(obs.build, L, ver, s, how)
        if ok and o2 is not None:
            P.stratum("object-obtained-by:" + how)
            for n, f in acc:
                ok, r = obs.call(f, o2)
                if not ok:
                    P.violation("total", "C18:v%s:%s-raises:%s:object-obtained-by-%s" % (ver, n, obs.exc_name(r), how), dict(case0, sequence=[n], built=how), error=repr(r))
                    break
                if not same(r, base[n]) and n not in ("eq_twin",):
                    P.violation("pair-stable", "C18:v%s:%s-differs-for-the-object-obtained-by-%s" % (ver, n, how), dict(case0, sequence=[n], built=how))
                    break
    # every ordered pair
    P.distinct_n += len(names) ** 2
    for a in (names if not near_miss else names[:1]):
        for b in names:
            P.evaluations += 1
            o = L.CLS[ver](s)
            snap = snapshot(o)
            # (read before anything else was called for every third pair: an attribute computed on demand must give
            # the same value whenever it is read)
            k_ = names.index(a) * len(names) + names.index(b)
            pub = public_state(ver, o, k_) if k_ % 3 == 0 else public_state(ver, L.CLS[ver](s), k_)
            ok, ra = obs.call(fns[a], o)
            ok2, rb = obs.call(fns[b], o)
            P.ev("pair-stable")
            case = dict(case0, sequence=[a, b])
            P.ev("public-state-stable")
            pub2 = public_state(ver, o)
            if pub2 != pub:
                ch = sorted(n for n in pub if pub[n] != pub2[n])
                P.violation("public-state-stable", "C18:v%s:public-attribute-changes-with-the-accessors-called-before:%s" % (ver, "+".join(ch)[:80]),
                            case, fresh={n: repr(pub[n])[:80] for n in ch}, after={n: repr(pub2[n])[:80] for n in ch})
            if not ok or not ok2:
                P.violation("total", "C18:v%s:%s-raises-after-%s" % (ver, b, a), case, error=repr(ra if not ok else rb))
                continue
            if not same(rb, base[b]):
                P.violation("pair-stable", "C18:v%s:%s-differs-after-%s" % (ver, b, a), case, observed=repr(rb)[:300],
                            fresh=repr(base[b])[:300])
            if snap is not None and snapshot(o) != snap:
                P.stratum("internal-attributes-changed-by:%s" % a)
    # random sequences with dictionary mutation
    for _ in range(n_seq):
        P.evaluations += 1
        o = L.CLS[ver](s)
        seq = []
        first = {}
        held = []
        for step in range(rng.randint(5, 40)):
            r = rng.random()
            if r < 0.2 and held:
                how = rng.choice(MUTATIONS)
                d = rng.choice(held)
                seq.append("mutate:" + how)
                obs.call(mutate, d, how)
                continue
            if r < 0.23:
                # other objects are SERIALISED in between: an equal vector in another spelling,
                # and now and then a few hundred unrelated ones (bounded caches get recycled)
                seq.append("serialise-others")
                fs = T.parse(ver, s)[1]
                rng.shuffle(fs)
                ok_, o_ = obs.call(L.CLS[ver], T.spell(T.split_prefix(ver, s)[0], fs))
                if ok_:
                    for so in (False, True):
                        for mi in (False, True):
                            obs.call(o_.as_json, sort=so, minimal=mi)
                    obs.call(lambda: (o_.clean_vector(), hash(o_), o_.rh_vector()))
                if rng.random() < 0.03:
                    for _k in range(150):
                        ok_, o_ = obs.call(L.CLS[ver], V.rand_vector(rng, ver)[2])
                        if ok_:
                            obs.call(o_.as_json)
                            obs.call(o_.as_json, sort=True, minimal=True)
                continue
            if r < 0.25:
                # construct (and reject) other objects in between
                seq.append("construct-others")
                obs.call(L.CLS[ver], V.rand_vector(rng, ver)[2])
                obs.call(L.CLS[ver], s + "/")
                continue
            n = rng.choice(names)
            seq.append(n)
            if n.startswith("as_json"):
                ok, d = obs.call(lambda: o.as_json(sort="sort" in n, minimal="minimal" in n))
                if ok and isinstance(d, dict):
                    held.append(d)
            ok, res = obs.call(fns[n], o)
            P.ev("sequence-stable")
            case = dict(case0, sequence=list(seq))
            if not ok:
                P.violation("total", "C18:v%s:%s-raises-in-sequence" % (ver, n), case, error=repr(res))
                break
            mutated = any(x.startswith("mutate:") for x in seq)
            if not same(res, base[n]) or (n in first and not same(res, first[n])):
                if mutated and n.startswith("as_json"):
                    P.violation("json-isolated", "C18:v%s:%s-affected-by-mutating-a-returned-dict" % (ver, n), case,
                                observed=repr(res)[:300])
                elif mutated:
                    P.violation("json-isolated", "C18:v%s:%s-differs-after-dict-mutation-or-calls" % (ver, n), case,
                                observed=repr(res)[:300], fresh=repr(base[n])[:300])
                else:
                    P.violation("sequence-stable", "C18:v%s:%s-differs-in-sequence" % (ver, n), case, observed=repr(res)[:300],
                                fresh=repr(base[n])[:300])
                break
            first.setdefault(n, res)
            if mutated:
                P.ev("json-isolated")
        P.dist((s, tuple(seq)))
    # direct json isolation: every mutation on every option pair
    for sort in (False, True):
        for minimal in (False, True):
            for how in MUTATIONS:
                P.evaluations += 1
                o = L.CLS[ver](s)
                n = "as_json" + ("_sort" if sort else "") + ("_minimal" if minimal else "")
                ok, d = obs.call(lambda: o.as_json(sort=sort, minimal=minimal))
                if not ok:
                    continue
                obs.call(mutate, d, how)
                P.ev("json-isolated")
                for m in names:
                    ok, res = obs.call(fns[m], o)
                    if not ok or not same(res, base[m]):
                        P.violation("json-isolated", "C18:v%s:%s-affected-by-mutating-a-returned-dict" % (ver, m),
                                    dict(case0, sequence=[n, "mutate:" + how, m]), observed=repr(res)[:300])


def replay(R, w):
    """Re-execute the recorded call sequence on a fresh instance."""
    L = lib()
    case = w["case"]
    ver, s = case["ver"], case["vector"]
    twin = L.CLS[ver](s)
    fns = dict(accessors(ver, twin))
    base = {n: f(L.CLS[ver](s)) for n, f in fns.items()}
    o = L.CLS[ver](s)
    held = []
    import random
    rng = random.Random(0)
    R.P.evaluations += 1
    for n in case["sequence"]:
        if n.startswith("mutate:"):
            if held:
                mutate(held[-1], n.split(":")[1])
            continue
        if n == "construct-others":
            continue
        if n == "serialise-others":
            fs = T.parse(ver, s)[1][::-1]
            ok_, o_ = obs.call(L.CLS[ver], T.spell(T.split_prefix(ver, s)[0], fs))
            if ok_:
                for so in (False, True):
                    for mi in (False, True):
                        obs.call(o_.as_json, sort=so, minimal=mi)
            for _k in range(150):
                ok_, o_ = obs.call(L.CLS[ver], V.rand_vector(rng, ver)[2])
                if ok_:
                    obs.call(o_.as_json)
                    obs.call(o_.as_json, sort=True, minimal=True)
            continue
        if n.startswith("as_json"):
            held.append(o.as_json(sort="sort" in n, minimal="minimal" in n))
        ok, res = obs.call(fns[n], o)
        R.P.ev("sequence-stable")
        if not ok or not same(res, base[n]):
            R.P.violation(w["monitor"], w["key"], case, observed=repr(res)[:300], fresh=repr(base[n])[:300])
            return


def check_case(P, case):
    import random
    check_vector(P, case["ver"], case["vector"], random.Random(0), 5, near_miss=bool(case.get("near_miss")))


NEAR_OPS = ("pad", "lower", "upper", "lower-all", "upper-all", "space-end", "space-start", "tab-end", "newline-end", "newline-start",
            "trailing-slash", "leading-slash", "double-slash", "nul-end", "prefix-variant")


def shard(P, ver, idx, n, n_seq, seed):
    """Odd shards run in a freshly started thread: "returns without raising" does not depend on the thread
    that imported the package."""
    if idx % 2 == 1:
        import threading
        err = []

        def body():
            try:
                _shard(P, ver, idx, n, n_seq, seed)
            except BaseException as e:  # noqa
                err.append(e)
        t = threading.Thread(target=body)
        t.start()
        t.join()
        P.stratum("shards-run-in-a-fresh-thread")
        if err:
            raise err[0]
        return
    _shard(P, ver, idx, n, n_seq, seed)


def _shard(P, ver, idx, n, n_seq, seed):
    import random
    rng = random.Random("C18-%s-%s-%s" % (seed, ver, idx))
    pool = V.each_choice(ver) if idx == 0 else []
    for j in range(n):
        prefix = V.rand_prefix(rng, ver)
        m = pool.pop() if pool else V.rand_metrics(rng, ver, p_opt=rng.choice((0.0, 0.5, 0.9)), p_nd=0.3)
        s = V.spell(prefix, m, "shuffle", rng)
        check_vector(P, ver, s, rng, n_seq)
        if j % 4 == 0:
            for op, ms in V.field_mutants(ver, prefix, T.parse(ver, s)[1], rng):
                if op in NEAR_OPS:
                    check_vector(P, ver, ms, rng, 1, near_miss=True)
        if j % 13 == 0:
            P.sample({"ver": ver, "vector": s, "sequence": "all ordered accessor pairs + %d random sequences" % n_seq})


def run(R):
    R.rule = RULE
    R.require("total", "pair-stable", "sequence-stable", "json-isolated")
    R.assumptions = ["results compared with == and exact type; key order compared for sort=True only",
                     "internal attribute changes are reported, not judged (a harmless cache is legal)"]
    n = R.pick(20, 650)
    for ver in T.VERSIONS:
        R.pmap("shard", [(ver, i, n, R.pick(6, 20), R.seed) for i in range(16)])


# ---- in-memory seeded faults -------------------------------------------------
def _m_pop(L):
    import cvss.cvss3 as c3
    orig = c3.CVSS3.as_json

    def f(self, sort=False, minimal=False):
        d = orig(self, sort, minimal)
        if minimal:
            self.original_metrics.pop("RC", None)
        return d
    c3.CVSS3.as_json = f


def _m_cache(L):
    import cvss.cvss4 as c4
    orig = c4.CVSS4.clean_vector

    def cv(self, output_prefix=True):
        if not hasattr(self, "_cv"):
            self._cv = orig(self, output_prefix)
        return self._cv
    c4.CVSS4.clean_vector = cv


def _m_shared(L):
    import cvss.cvss2 as c2
    orig = c2.CVSS2.as_json
    store = {}

    def f(self, sort=False, minimal=False):
        k = (id(self), sort, minimal)
        if k not in store:
            store[k] = orig(self, sort, minimal)
        return store[k]
    c2.CVSS2.as_json = f


def _m_scores_fill(L):
    import cvss.cvss2 as c2
    orig = c2.CVSS2.scores

    def f(self):
        self.metrics.setdefault("E", "ND")
        self.metrics.setdefault("TD", "ND")
        return orig(self)
    c2.CVSS2.scores = f
    c2.CVSS2.environmental_vector = lambda self: "/".join(
        [m + ":" + self.metrics[m] for m in c2.ENVIRONMENTAL_METRICS if m in self.metrics] or ["CDP:ND"])


def _m_sev_once(L):
    import cvss.cvss3 as c3
    orig = c3.CVSS3.severities

    def f(self):
        r = orig(self)
        self.base_score = self.base_score + 0
        if getattr(self, "_n", 0) >= 2:
            return tuple(x.upper() for x in r)
        self._n = getattr(self, "_n", 0) + 1
        return r
    c3.CVSS3.severities = f


def _m_hash_counter(L):
    import cvss.cvss4 as c4
    c4.CVSS4.__hash__ = lambda self: hash((self.clean_vector(), self.__dict__.setdefault("_h", id(self) if self.metrics.get("U") == "Red" else 0)))


MUTANTS = {"v3_as_json_minimal_pops_RC": _m_pop, "v4_clean_vector_cached_ignoring_prefix": _m_cache,
           "v2_as_json_returns_shared_dict": _m_shared, "v2_scores_fills_metric_map": _m_scores_fill,
           "v3_severities_change_on_third_call": _m_sev_once, "v4_hash_identity_for_U_Red": _m_hash_counter}
