"""C19 -- results depend only on the input: no hidden state or ambient dependence.

Five monitors (verdict = conjunction; evidence lists each):
  history      a fixed probe set observed in a FRESH process (baseline) and again after
               seeded random histories of API calls (valid / failing constructions of all
               versions, serialisation + mutation of results, RH parsing, text extraction,
               interactive and CLI runs); objects built early are kept and re-observed
  global-state before/after each history: deep fingerprint of the data globals of every
               cvss module and of the classes, the exception hierarchy, decimal context
               (prec, rounding, Emin, Emax, capitals, clamp, traps -- NOT the sticky signal
               flags), sys.path, warnings.filters; stdout/stderr captured at Python and at
               file-descriptor level stay empty outside the two entry points
  threads      8 threads build and observe objects from a shared pool; sys.monitoring LINE
               callbacks inside cvss/*.py yield with a seeded probability; every record is
               compared with the single-threaded baseline; evidence: cross-thread switches
               observed inside library code and distinct switch points
  hash-seed    the probe in fresh processes under several PYTHONHASHSEED values
  decimal      the probe under all 8 ambient rounding modes x prec {28, 29, 40, 100}
"""
import decimal
import io
import json
import os
import subprocess
import sys
import tempfile
import threading
import time
import types
import warnings

from .. import bootstrap
from .. import obs
from .. import probe19
from ..bootstrap import lib
from ..spec import tables as T
from ..workloads import dialogue as DLG
from ..workloads import vectors as V

ORACLES = ("tables",)
RULE = ("a case is a probe-set observation (about 400 inputs of all kinds) taken after a seeded history of API calls / in a "
        "thread workload / in a fresh process with another hash seed / under another ambient decimal context, compared "
        "with the fresh-process baseline; distinct = distinct (monitor, history seed | schedule seed | hash seed | context); "
        "non-trivial = the whole probe set was observed and compared.")

MODS = ["cvss", "cvss.constants2", "cvss.constants3", "cvss.constants4", "cvss.cvss2", "cvss.cvss3", "cvss.cvss4",
        "cvss.exceptions", "cvss.parser", "cvss.interactive", "cvss.cvss_calculator"]


def fresh_probe(seed, hashseed="0", extra_env=None, flags=()):
    env = dict(os.environ)
    env.update({"PYTHONHASHSEED": str(hashseed), "PYTHONDONTWRITEBYTECODE": "1", "PYTHONIOENCODING": "utf-8"})
    env.update(extra_env or {})
    p = subprocess.run([sys.executable, "-B"] + list(flags) + ["-m", "vmon.probe19", str(seed)], cwd=bootstrap.VERIF, env=env,
                       stdout=subprocess.PIPE, stderr=subprocess.PIPE, timeout=600)
    if p.returncode != 0:
        raise RuntimeError("fresh probe failed: " + p.stderr.decode()[-500:])
    return json.loads(p.stdout.decode("utf-8")), p.stderr.decode("utf-8", "replace")


# ---- global-state fingerprint -------------------------------------------------
def _data_repr(v, depth=0):
    if isinstance(v, (types.FunctionType, types.BuiltinFunctionType, type, types.ModuleType, classmethod, staticmethod, property)):
        return None
    if callable(v) and not isinstance(v, (dict, list, set, tuple)):
        return None
    try:
        return repr(v)
    except Exception:
        return "<unreprable %s>" % type(v).__name__


def fingerprint():
    import importlib
    fp = {}
    for name in MODS:
        try:
            mod = importlib.import_module(name)
        except Exception:
            continue
        for k, v in sorted(vars(mod).items()):
            if k.startswith("__"):
                continue
            r = _data_repr(v)
            # "its own constant tables": everything public in the constants modules, and names
            # that are constants by convention (ALL_CAPS) elsewhere.  Lower-case / private
            # module data (loggers, locks, statistics counters, caches) is not a constant table;
            # whether such state is harmful is decided by the behavioural monitors.
            if r is not None and not k.startswith("_") and (".constants" in name or k.upper() == k):
                fp["%s.%s" % (name, k)] = r
            if isinstance(v, type) and getattr(v, "__module__", "").startswith("cvss"):
                for ck, cv in sorted(vars(v).items()):
                    if ck.startswith("__"):
                        continue
                    rr = _data_repr(cv)
                    if rr is not None and not ck.startswith("_"):
                        fp["%s.%s.%s" % (name, k, ck)] = rr
                fp["%s.%s.<mro>" % (name, k)] = repr([c.__name__ for c in v.__mro__])
    c = decimal.getcontext()
    fp["decimal.context"] = repr((c.prec, c.rounding, c.Emin, c.Emax, c.capitals, c.clamp,
                                  sorted((s.__name__, bool(f)) for s, f in c.traps.items())))
    fp["sys.path"] = repr(sys.path)
    # further process-global state a library has no business changing (added in session 3 after seed
    # C19-cli-restores-default-sigpipe-in-main): signal dispositions, interpreter hooks and limits, working directory,
    # locale, environment, the ROOT logger's configuration, the garbage collector's settings
    try:
        import gc
        import locale
        import logging
        import signal
        import threading
        fp["signal.dispositions"] = repr(sorted((int(n), repr(signal.getsignal(n))) for n in signal.valid_signals()))
        fp["sys.hooks"] = repr((sys.excepthook, sys.displayhook, getattr(sys, "unraisablehook", None), getattr(threading, "excepthook", None)))
        fp["sys.recursionlimit"] = repr(sys.getrecursionlimit())
        fp["os.cwd+locale"] = repr((os.getcwd(), locale.setlocale(locale.LC_ALL, None)))
        fp["os.environ"] = repr(sorted(os.environ.items()))
        root = logging.getLogger()
        fp["logging.root"] = repr((root.level, [type(h).__name__ for h in root.handlers], logging.root.manager.disable, logging.raiseExceptions))
        fp["gc.settings"] = repr((gc.isenabled(), gc.get_threshold()))
    except Exception:
        pass
    fp["warnings.filters"] = repr(warnings.filters)
    fp["sys.modules.cvss"] = repr(sorted(m for m in sys.modules if m == "cvss" or m.startswith("cvss.")))
    return fp


_FIRST_FP = {}
EMPTY = frozenset(["{}", "[]", "set()", "()", "OrderedDict()", "frozenset()", "None", "''", "0", "defaultdict(<class 'dict'>, {})",
                   "defaultdict(<class 'list'>, {})", "Counter()", "deque([])"])


class OutputGuard(object):
    """stdout/stderr guard: Python level (sys.stdout/sys.stderr replaced by recorders) and
    file-descriptor level (fd 1/2 redirected into a temporary file)."""

    def __enter__(self):
        self.py_out, self.py_err = io.StringIO(), io.StringIO()
        self.old = sys.stdout, sys.stderr
        sys.stdout.flush()
        sys.stderr.flush()
        self.tmp = tempfile.TemporaryFile()
        self.saved = os.dup(1), os.dup(2)
        os.dup2(self.tmp.fileno(), 1)
        os.dup2(self.tmp.fileno(), 2)
        sys.stdout, sys.stderr = self.py_out, self.py_err
        return self

    def __exit__(self, *a):
        sys.stdout, sys.stderr = self.old
        os.dup2(self.saved[0], 1)
        os.dup2(self.saved[1], 2)
        os.close(self.saved[0])
        os.close(self.saved[1])
        self.tmp.seek(0)
        self.fd_bytes = self.tmp.read()
        self.tmp.close()

    def written(self):
        return self.py_out.getvalue() + self.py_err.getvalue() + self.fd_bytes.decode("utf-8", "replace")


# ---- history -------------------------------------------------------------------
def run_history(rng, n_ops, keep):
    """Seeded random history of API calls.  Returns list of op names (for the witness)."""
    L = lib()
    ops = []
    objs = []
    for _ in range(n_ops):
        r = rng.random()
        ver = rng.choice(T.VERSIONS)
        if r < 0.30:
            p, m, s = V.rand_vector(rng, ver, p_opt=rng.choice((0.0, 0.5, 0.9)))
            ok, o = obs.call(L.CLS[ver], s)
            ops.append("construct:v" + ver)
            if ok:
                objs.append((ver, s, o))
                if len(keep) < 40 and rng.random() < 0.3:
                    keep.append((ver, s, o, probe19.observe_vector(ver, s)))
        elif r < 0.45:
            p, m, s = V.rand_vector(rng, ver)
            muts = list(V.field_mutants(ver, p, T.parse(ver, s)[1], rng))
            for op, ms in rng.sample(muts, 5):
                obs.call(L.CLS[rng.choice(T.VERSIONS)], ms)
            ops.append("reject:v" + ver)
        elif r < 0.60 and objs:
            ver, s, o = rng.choice(objs)
            for sort in (False, True):
                for minimal in (False, True):
                    ok, d = obs.call(o.as_json, sort=sort, minimal=minimal)
                    if ok and rng.random() < 0.5:
                        obs.call(d.clear)
            obs.call(lambda: (o.scores(), o.severities(), o.clean_vector(), o.rh_vector(), hash(o), o == objs[0][2]))
            if ver in ("2", "3"):
                obs.call(lambda: (o.temporal_vector(), o.environmental_vector()))
            ops.append("serialise:v" + ver)
        elif r < 0.70:
            p, m, s = V.rand_vector(rng, ver)
            for head in ("7.5", "0.0", "abc", "nan"):
                obs.call(L.CLS[ver].from_rh_vector, head + "/" + s)
            obs.call(L.CLS[ver].from_rh_vector, s)
            ops.append("rh:v" + ver)
        elif r < 0.80:
            parts = []
            for _ in range(rng.randint(0, 5)):
                parts.append(V.rand_vector(rng, rng.choice(T.VERSIONS))[2])
                parts.append(rng.choice([" ", "x", "/", ". ", "\n"]))
            obs.call(L.parser.parse_cvss_from_text, "".join(parts))
            ops.append("text")
        elif r < 0.90:
            vt = rng.choice(("2", "3.0", "3.1", "4"))
            am = rng.random() < 0.5
            v_ = DLG.VER_OF[vt]
            answers = [rng.choice(T.VALUES[v_][mm] + ["", "?"]) for mm in T.ORDER[v_] for _ in range(2)]
            DLG.run_dialogue(vt, am, answers[:rng.randrange(len(answers) + 1)], no_colors=rng.random() < 0.5)
            ops.append("interactive:" + vt)
        else:
            from . import C17
            argv, answers = next(C17.cases(rng, 1, False))
            C17.run_inprocess(argv, answers)
            ops.append("cli")
        if len(objs) > 200:
            del objs[:100]
    # set / dict use of objects
    obs.call(lambda: len(set(o for _, _, o in objs)))
    return ops


def shard_history(P, idx, n_hist, n_ops, seed, base):
    import random
    inputs = probe19.probe_inputs(seed)
    keep = []
    for h in range(n_hist):
        hseed = "%s-%s-%s" % (seed, idx, h)
        rng = random.Random("C19-hist-" + hseed)
        P.evaluations += 1
        fp0 = fingerprint()
        if not _FIRST_FP:
            _FIRST_FP.update(fp0)  # state at the start of this process (right after import)
        with OutputGuard() as g:
            ops = run_history(rng, n_ops, keep)
            after = probe19.observe(inputs)
        case = {"kind": "history", "seed": seed, "shard": idx, "histories": h + 1, "n_ops": n_ops}
        P.dist(("history", hseed))
        P.ev("history")
        d = probe19.diff(base, after)
        if d is not None:
            sec, i, fields, x, y = d
            inp = inputs[sec][i] if i >= 0 else None
            P.violation("history", "C19:history:probe-differs-after-history:%s:%s" % (sec, "+".join(fields[:2]) or "value"), case,
                        probe_input=inp, fresh=x, after_history=y, last_ops=ops[-8:])
        P.ev("global-state")
        fp1 = fingerprint()
        for k in sorted(fp0):
            # Judged: data that EXISTED and was NON-EMPTY before the history (constant tables,
            # class-level defaults with content, contexts, paths, filters).  A container that
            # starts empty and grows is a cache; whether a cache is harmful is decided by the
            # behavioural monitors (history / threads), not by its mere existence.  Names that
            # appear later are ignored for the same reason.
            if _FIRST_FP.get(k, fp0[k]) in EMPTY:
                P.stratum("global-state:initially-empty-container-not-judged")
                continue
            if fp0.get(k) != fp1.get(k):
                what = k if not k.startswith("cvss") else k
                P.violation("global-state", "C19:global-state:modified:%s" % what, case, before=str(fp0.get(k))[:300],
                            after=str(fp1.get(k))[:300], last_ops=ops[-8:])
        w = g.written()
        P.ev("silent")
        if w:
            P.violation("global-state", "C19:global-state:writes-to-stdout-or-stderr", case, written=w[:300], last_ops=ops[-8:])
        for op in set(ops):
            P.stratum("history-op:" + op.split(":")[0], ops.count(op))
        if h == 0 and idx == 0:
            P.sample({"kind": "history", "ops": ops[:25]})
    # aliasing: objects built early are re-observed at the very end
    P.ev("aliasing")
    for ver, s, o, rec in keep:
        P.stratum("kept-objects-reobserved")
        now = {"scores": list(o.scores()), "severities": list(o.severities()), "clean": o.clean_vector(), "rh": o.rh_vector()}
        if any(now[k] != rec[k] for k in now):
            P.violation("history", "C19:history:kept-object-changed", {"kind": "aliasing", "ver": ver, "vector": s},
                        first=rec, now=now)


# ---- threads -------------------------------------------------------------------
class YieldInjector(object):
    """sys.monitoring LINE callbacks restricted to the code objects of cvss/*.py."""
    TOOL = 3

    def __init__(self, prob, seed):
        import random
        self.rng = random.Random("C19-yield-%s" % seed)
        self.prob = prob
        self.events = 0
        self.yields = 0
        self.switches = 0
        self.points = set()
        self.last = None
        self.lock = threading.Lock()
        self.ncode = 0
        self.long_sleep = 0
        self.first_hit_sleep = 0
        self.first_hit_mod = (1, 0)
        self.seen = set()
        self.first_hits = 0

    def codes(self):
        import importlib
        seen = set()
        out = []

        def walk(code):
            if code in seen:
                return
            seen.add(code)
            out.append(code)
            for c in code.co_consts:
                if isinstance(c, types.CodeType):
                    walk(c)
        for name in MODS:
            try:
                mod = importlib.import_module(name)
            except Exception:
                continue
            for v in vars(mod).values():
                if isinstance(v, types.FunctionType) and v.__module__ == name:
                    walk(v.__code__)
                elif isinstance(v, type) and v.__module__ == name:
                    for cv in vars(v).values():
                        f = getattr(cv, "__func__", cv)
                        if isinstance(f, types.FunctionType):
                            walk(f.__code__)
        return out

    def start(self):
        mon = sys.monitoring
        mon.use_tool_id(self.TOOL, "vmon-yield")
        mon.register_callback(self.TOOL, mon.events.LINE, self.on_line)
        for c in self.codes():
            mon.set_local_events(self.TOOL, c, mon.events.LINE)
            self.ncode += 1

    def stop(self):
        mon = sys.monitoring
        for c in self.codes():
            mon.set_local_events(self.TOOL, c, 0)
        mon.register_callback(self.TOOL, mon.events.LINE, None)
        mon.free_tool_id(self.TOOL)

    def on_line(self, code, line):
        tid = threading.get_ident()
        with self.lock:
            self.events += 1
            if self.last is not None and self.last != tid:
                self.switches += 1
                self.points.add((os.path.basename(code.co_filename), line))
            self.last = tid
            y = self.rng.random() < self.prob
            first_hit = False
            if self.first_hit_sleep:
                loc = (code, line)
                if loc not in self.seen:
                    self.seen.add(loc)
                    # (one line in K, so that the OTHER threads are not pausing at their own first executions
                    # at the same time; K processes with different residues cover the lines between them)
                    first_hit = len(self.seen) % self.first_hit_mod[0] == self.first_hit_mod[1]
        if first_hit:
            # the FIRST execution of this line in the process: whoever gets here first stays here for a
            # while, so that the other threads run through everything already executed once and meet
            # whatever this thread has half done (systematic exposure of the windows of lazy first builds)
            self.first_hits += 1
            time.sleep(self.first_hit_sleep)
        if y:
            self.yields += 1
            # now and then the thread stays descheduled for a while, so that the others get through many
            # library calls while it sits inside whatever it was doing (a window a few lines wide)
            time.sleep(self.long_sleep if self.long_sleep and self.yields % 7 == 0 else 0)


SHARED = {}  # (version, string) -> ONE object built before the threads start and observed by all of them


def _observe_shared(ver, s):
    o = SHARED[(ver, s)]
    try:
        return probe19._observe_object(lib(), ver, s, o)
    except Exception as e:  # an accessor that raises is an observation, not a harness failure
        return {"accessor_error": type(e).__name__, "message": str(e)[:200]}


def observe_item(k):
    """k: (version, vector string) or ('T', text) or ('R', version, Red Hat string) or ('O', version, string): the
    accessors of the ONE object SHARED[...] (an immutable value may be handed to several threads)."""
    if k[0] == "O":
        return json.loads(json.dumps(_observe_shared(k[1], k[2])))
    if k[0] == "T":
        return probe19.observe({"vectors": [], "rh": [], "texts": [k[1]], "dialogues": []})["texts"][0]
    if k[0] == "R":
        return probe19.observe({"vectors": [], "rh": [(k[1], k[2])], "texts": [], "dialogues": []})["rh"][0]
    return json.loads(json.dumps(probe19.observe_vector(*k)))


def other_entry_items(rng, pool):
    """Texts and Red Hat strings made of the pool's vectors: the extractor and from_rh_vector run concurrently too."""
    out = []
    vs = [k for k in pool if k[0] in ("2", "3")]
    for _ in range(8):
        parts = []
        for _ in range(rng.randint(2, 5)):
            parts.append(rng.choice(vs)[1])
            parts.append(rng.choice([" ", "\n", ". ", " and ", "; "]))
        out.append(("T", "".join(parts)))
    for k in rng.sample(pool, 6):
        out.append(("R", k[0], rng.choice(["7.5/", "0.0/", "x/", "10.0/"]) + k[1]))
    return out


def thread_workload(P, seed, n_threads, per_thread, prob):
    import random
    rng = random.Random("C19-thr-%s" % seed)
    pool = []
    for ver in T.VERSIONS:
        for _ in range(12):
            p, m, s = V.rand_vector(rng, ver, p_opt=rng.choice((0.2, 0.9)))
            pool.append((ver, s))
            muts = list(V.field_mutants(ver, p, T.parse(ver, s)[1], rng))
            pool.append((ver, rng.choice(muts)[1]))
    pool += other_entry_items(rng, pool)
    # a few objects built once and handed to all threads (three entries each, so that their accessors overlap often)
    SHARED.clear()
    for ver, sv in [k for k in pool if len(k) == 2 and k[0] in T.VERSIONS][::2]:
        if sum(1 for k in SHARED if k[0] == ver) >= 2:
            continue
        ok_, o_ = obs.call(lib().CLS[ver], sv)
        if ok_:
            SHARED[(ver, sv)] = o_
            pool += [("O", ver, sv)] * 3
    base = {k: observe_item(k) for k in pool}
    P.stratum("threads:objects-shared-between-threads", len(SHARED))
    results = []
    errors = []
    old_si = sys.getswitchinterval()
    inj = YieldInjector(prob, seed)
    have_mon = hasattr(sys, "monitoring")

    rounds = [(pool, per_thread)]
    only_shared = [k for k in pool if k[0] == "O"]
    if only_shared:
        # second round: every thread reads nothing but the few shared objects (their accessors overlap all the time)
        rounds.append((sorted(set(only_shared)), max(6, per_thread // 2)))

    def worker(tid):
        r = random.Random("C19-thr-%s-%s" % (seed, tid))
        try:
            for pl, n in current:
                for _ in range(n):
                    k = pl[r.randrange(len(pl))]
                    results.append((tid, k, observe_item(k)))
        except BaseException as e:  # noqa
            errors.append(repr(e))

    sys.setswitchinterval(1e-5)
    if have_mon:
        inj.start()
    current = []
    try:
        for rnd in rounds:
            current[:] = [rnd]
            ths = [threading.Thread(target=worker, args=(i,)) for i in range(n_threads)]
            for t in ths:
                t.start()
            for t in ths:
                t.join()
    finally:
        if have_mon:
            inj.stop()
        sys.setswitchinterval(old_si)
    P.evaluations += 1
    P.ev("threads")
    case = {"kind": "threads", "seed": seed, "threads": n_threads, "per_thread": per_thread, "yield_probability": prob}
    P.dist(("threads", seed))
    for e in errors:
        P.violation("threads", "C19:threads:worker-raised", case, error=e)
    bad = [(tid, k, rec) for tid, k, rec in results if rec != base[k]]
    for tid, k, rec in bad[:3]:
        fields = [f for f in rec if isinstance(base[k], dict) and rec.get(f) != base[k].get(f)]
        P.violation("threads", "C19:threads:record-differs-from-single-threaded:%s" % "+".join(fields[:2]), case,
                    probe_input=list(k), single_threaded=base[k], concurrent=rec)
    P.stratum("threads:records-compared", len(results))
    P.stratum("threads:line-events-in-library", inj.events)
    P.stratum("threads:injected-yields", inj.yields)
    P.stratum("threads:cross-thread-switches-inside-library", inj.switches)
    P.addset("thread_switch_points", inj.points)
    if have_mon and inj.switches == 0:
        P.notes.append("INCONCLUSIVE:thread workload observed no cross-thread switch inside library code")
    if not have_mon:
        P.stratum("threads:sys.monitoring-unavailable")


def shard_threads(P, idx, per_thread, prob, seed):
    thread_workload(P, "%s-%s" % (seed, idx), 8, per_thread, prob)


# ---- threads, cold start: the FIRST use of the library in a process is the concurrent one ---------
THEMES = ("3-scope-changed", "4", "3-scope-changed", "2", "mixed", "3-scope-unchanged", "4", "mixed")


def cold_pool(seed, theme="mixed"):
    """(pool, first): `first` are the vectors the threads construct FIRST, all of one kind -- whatever is built
    lazily for that kind (a version, a scope) is then being built while the other threads ask for it."""
    import random
    rng = random.Random("C19-cold-%s" % seed)
    pool = []
    for ver in T.VERSIONS:
        for _ in range(6):
            p, m, s = V.rand_vector(rng, ver, p_opt=rng.choice((0.2, 0.9)))
            pool.append((ver, s))
    first = []
    for _ in range(16):
        ver = theme[0] if theme != "mixed" else rng.choice(T.VERSIONS)
        p, m, s = V.rand_vector(rng, ver, p_opt=rng.choice((0.0, 0.3, 0.9)), p_nd=0.1)
        if theme.startswith("3-scope"):
            m = dict(m)
            changed = theme.endswith("-changed")
            m["S"] = "C" if changed else "U"
            m["PR"] = rng.choice("LH")
            if changed and rng.random() < 0.5:
                m["S"], m["MS"], m["MPR"] = "U", "C", rng.choice("LH")
            elif "MS" in m:
                m["MS"] = m["S"]
            s = V.spell(p, m, "shuffle", rng)
        first.append((ver, s))
    return pool + first, first


def cold_child(seed, n_threads, per_thread, prob, theme="mixed", mod=(1, 0)):
    """Runs in a fresh interpreter: the package is imported, nothing has been constructed.  All
    threads leave a barrier together and observe vectors (every version first in some thread);
    afterwards the same inputs are observed single-threaded.  Prints one JSON document."""
    import random
    pool, first = cold_pool(seed, theme)
    results, errors = [], []
    inj = YieldInjector(prob, seed)
    inj.first_hit_sleep = 0.003
    inj.first_hit_mod = tuple(mod)
    have_mon = hasattr(sys, "monitoring")
    barrier = threading.Barrier(n_threads)

    def worker(tid):
        r = random.Random("C19-cold-%s-%s" % (seed, tid))
        order = [first[(tid * 2 + j) % len(first)] for j in range(2)] + [pool[r.randrange(len(pool))] for _ in range(per_thread)]
        barrier.wait()
        for k in order:
            try:
                results.append((tid, list(k), probe19.observe_vector(*k)))
            except BaseException as e:  # noqa
                errors.append([tid, list(k), repr(e)])

    bootstrap.lib()
    sys.setswitchinterval(1e-5)
    if have_mon:
        inj.start()
    ths = [threading.Thread(target=worker, args=(i,)) for i in range(n_threads)]
    for t in ths:
        t.start()
    for t in ths:
        t.join()
    if have_mon:
        inj.stop()
    after = [[list(k), probe19.observe_vector(*k)] for k in pool]
    sys.stdout.write(json.dumps({"results": results, "errors": errors, "after": after, "events": inj.events, "switches": inj.switches,
                                 "points": sorted(inj.points), "first_hits": inj.first_hits}))


# ---- threads, cold start, systematic: ONE preemption at every line of the first use -------------------------
def switch_vectors(theme, seed):
    """(vector of thread A, vectors of thread B): all of the theme's kind, different from each other."""
    import random
    pool, first = cold_pool("%s-switch" % seed, theme)
    vA = first[0]
    # thread B: the SAME assignment in another spelling (whatever A is building lazily for this very vector --
    # its macrovector, its scope, its field table -- is what B asks for), the same string, and two others of the kind
    ver, s = vA
    rng = random.Random("C19-switch-twin-%s-%s" % (seed, theme))
    p, fields = T.parse(ver, s)
    twin = V.spell(p, V.nd_variants(ver, dict(fields), rng, 1)[-1], "shuffle", rng)
    return vA, [(ver, twin), vA] + first[1:3]


def cold_switch_parent(theme, seed, part, nparts):
    """Runs in a fresh interpreter (package imported, nothing constructed) and never constructs anything
    itself: every schedule runs in a forked child.  Thread A makes the process's first use of the library
    (construct + all accessors of one vector); at the first execution of library line number k of that use it
    is held while thread B constructs and observes other vectors of the same kind from start to end; then A
    goes on.  One child per line (those with index % nparts == part).  Prints one JSON document."""
    import pickle
    vA, vBs = switch_vectors(theme, seed)
    bootstrap.lib()

    def child(target):
        """target None: record A's distinct library lines in order of first execution."""
        r, w = os.pipe()
        pid = os.fork()
        if pid:
            os.close(w)
            data = b""
            while True:
                chunk = os.read(r, 65536)
                if not chunk:
                    break
                data += chunk
            os.close(r)
            os.waitpid(pid, 0)
            return pickle.loads(data) if data else None
        os.close(r)
        out = None
        try:
            mon = sys.monitoring
            inj = YieldInjector(0.0, 0)
            go, done = threading.Event(), threading.Event()
            state = {"A": None, "fired": False, "locs": [], "seen": set()}

            def on_line(code, line):
                if threading.get_ident() != state["A"]:
                    return
                loc = (os.path.basename(code.co_filename), line)
                if target is None:
                    if loc not in state["seen"]:
                        state["seen"].add(loc)
                        state["locs"].append(loc)
                elif loc == target and not state["fired"]:
                    state["fired"] = True
                    go.set()
                    done.wait(20)
            mon.use_tool_id(inj.TOOL, "vmon-switch")
            mon.register_callback(inj.TOOL, mon.events.LINE, on_line)
            for c in inj.codes():
                mon.set_local_events(inj.TOOL, c, mon.events.LINE)
            res = {}

            def a():
                state["A"] = threading.get_ident()
                try:
                    res["A"] = probe19.observe_vector(*vA)
                except BaseException as e:  # noqa
                    res["A"] = {"harness-saw": repr(e)}
                go.set()

            def b():
                go.wait(20)
                res["B"] = []
                for k in vBs:
                    try:
                        res["B"].append(probe19.observe_vector(*k))
                    except BaseException as e:  # noqa
                        res["B"].append({"harness-saw": repr(e)})
                done.set()
            ta, tb = threading.Thread(target=a), threading.Thread(target=b)
            if target is None:
                ta.start()
                ta.join()
                out = state["locs"]
            else:
                ta.start()
                tb.start()
                ta.join()
                tb.join()
                # and once more, single-threaded, afterwards (a half-built table may have been left behind)
                res["after"] = [probe19.observe_vector(*k) for k in [vA] + list(vBs)]
                res["fired"] = state["fired"]
                out = res
        except BaseException as e:  # noqa
            out = {"child-error": repr(e)}
        try:
            os.write(w, pickle.dumps(json.loads(json.dumps(out)) if not isinstance(out, list) else out))
        finally:
            os._exit(0)

    locs = child(None) or []
    results = []
    for i, loc in enumerate(locs):
        if i % nparts == part:
            results.append([list(loc), child(tuple(loc))])
    sys.stdout.write(json.dumps({"locations": len(locs), "results": results}))


def shard_cold_switch(P, theme, part, nparts, seed):
    if not hasattr(sys, "monitoring"):
        P.stratum("cold-switch:sys.monitoring-unavailable")
        return
    env = dict(os.environ)
    env.update({"PYTHONDONTWRITEBYTECODE": "1", "PYTHONIOENCODING": "utf-8"})
    code = "from vmon.monitors import C19; C19.cold_switch_parent(%r, %r, %d, %d)" % (theme, seed, part, nparts)
    p = subprocess.run([sys.executable, "-B", "-c", code], cwd=bootstrap.VERIF, env=env, stdout=subprocess.PIPE,
                       stderr=subprocess.PIPE, timeout=1800)
    if p.returncode != 0:
        P.notes.append("INCONCLUSIVE:cold-switch parent failed: %s" % p.stderr.decode("utf-8", "replace")[-300:])
        return
    out = json.loads(p.stdout.decode("utf-8"))
    vA, vBs = switch_vectors(theme, seed)
    ref = [json.loads(json.dumps(probe19.observe_vector(*k))) for k in [vA] + list(vBs)]
    P.stratum("cold-switch:%s:library-lines-in-first-use" % theme, out["locations"] if part == 0 else 0)
    for loc, res in out["results"]:
        P.evaluations += 1
        P.dist(("cold-switch", theme, tuple(loc)))
        case = {"kind": "cold-switch", "first_vectors": theme, "seed": seed, "held_at": loc, "thread_A": list(vA), "thread_B": [list(k) for k in vBs]}
        if not res or "child-error" in res:
            P.notes.append("INCONCLUSIVE:cold-switch child failed at %s: %s" % (loc, res))
            continue
        P.ev("threads-cold-switch")
        if not res.get("fired"):
            P.stratum("cold-switch:line-not-reached-again")
        got = [res["A"]] + res["B"]
        for name, who, g, r in zip(["A"] + ["B"] * len(vBs), [vA] + list(vBs), got, ref):
            if g != r:
                fields = [f for f in g if isinstance(r, dict) and isinstance(g, dict) and g.get(f) != r.get(f)]
                P.violation("threads", "C19:threads:cold-start:one-preemption:thread-%s-record-differs:%s" % (name, "+".join(fields[:2])), case,
                            probe_input=list(who), single_threaded=r, with_preemption=g)
                break
        else:
            if res["after"] != ref:
                P.violation("threads", "C19:threads:cold-start:one-preemption:later-single-threaded-record-differs", case)


def shard_threads_cold(P, idx, per_thread, prob, seed):
    tag = "%s-%s" % (seed, idx)
    theme = THEMES[int(idx) % len(THEMES)]
    env = dict(os.environ)
    env.update({"PYTHONDONTWRITEBYTECODE": "1", "PYTHONIOENCODING": "utf-8"})
    code = "from vmon.monitors import C19; C19.cold_child(%r, 8, %d, %r, %r)" % (tag, per_thread, prob, theme)
    p = subprocess.run([sys.executable, "-B", "-c", code], cwd=bootstrap.VERIF, env=env, stdout=subprocess.PIPE,
                       stderr=subprocess.PIPE, timeout=600)
    case = {"kind": "threads-cold", "seed": tag, "threads": 8, "per_thread": per_thread, "yield_probability": prob, "first_vectors": theme}
    P.evaluations += 1
    P.dist(("threads-cold", tag))
    if p.returncode != 0:
        P.notes.append("INCONCLUSIVE:cold-start thread child failed: %s" % p.stderr.decode("utf-8", "replace")[-300:])
        return
    out = json.loads(p.stdout.decode("utf-8"))
    P.ev("threads-cold-start")
    # the reference: the same inputs observed here, single-threaded (this process has a history of its
    # own, which the history monitor judges; any disagreement between the three is a violation)
    base = {tuple(k): json.loads(json.dumps(probe19.observe_vector(*k))) for k in cold_pool(tag, theme)[0]}
    for tid, k, e in out["errors"][:3]:
        P.violation("threads", "C19:threads:cold-start:worker-raised:%s" % e.split("(")[0], case, probe_input=k, error=e)
    bad = [(tid, k, rec) for tid, k, rec in out["results"] if rec != base[tuple(k)]]
    for tid, k, rec in bad[:3]:
        fields = [f for f in rec if isinstance(base[tuple(k)], dict) and rec.get(f) != base[tuple(k)].get(f)]
        P.violation("threads", "C19:threads:cold-start:record-differs-from-single-threaded:%s" % "+".join(fields[:2]), case,
                    probe_input=k, single_threaded=base[tuple(k)], concurrent=rec)
    for k, rec in out["after"]:
        if rec != base[tuple(k)]:
            P.violation("threads", "C19:threads:cold-start:later-single-threaded-record-differs", case, probe_input=k,
                        reference=base[tuple(k)], after_concurrent_first_use=rec)
            break
    P.stratum("threads-cold:processes")
    P.stratum("threads-cold:first-vectors:" + theme)
    P.stratum("threads-cold:records-compared", len(out["results"]))
    P.stratum("threads-cold:cross-thread-switches-inside-library", out["switches"])
    P.stratum("threads-cold:first-execution-pauses", out.get("first_hits", 0))
    P.addset("thread_switch_points", [tuple(x) for x in out["points"]])


# ---- decimal contexts ------------------------------------------------------------
PRECS = [(28, 29, 40, 100)]
ROUNDINGS = [decimal.ROUND_CEILING, decimal.ROUND_DOWN, decimal.ROUND_FLOOR, decimal.ROUND_HALF_DOWN, decimal.ROUND_HALF_EVEN,
             decimal.ROUND_HALF_UP, decimal.ROUND_UP, decimal.ROUND_05UP]


def shard_decimal(P, rounding, seed, base):
    inputs = probe19.probe_inputs(seed)
    # reference: the same sequential observation in THIS process under the default context
    # (twice, so that history effects are not attributed to the decimal context)
    probe19.observe(inputs)
    base = probe19.observe(inputs)
    for prec in ((28, 29, 40, 100) if len(inputs["vectors"]) < 0 else PRECS[0]):
        P.evaluations += 1
        ctx = decimal.Context(prec=prec, rounding=rounding)
        old = decimal.getcontext()
        decimal.setcontext(ctx)
        try:
            after = probe19.observe(inputs)
            left = (decimal.getcontext().prec, decimal.getcontext().rounding)
        finally:
            decimal.setcontext(old)
        P.ev("decimal")
        P.dist(("decimal", rounding, prec))
        case = {"kind": "decimal", "seed": seed, "rounding": rounding, "prec": prec}
        d = probe19.diff(base, after)
        if d is not None:
            sec, i, fields, x, y = d
            P.violation("decimal", "C19:decimal:probe-differs-under-ambient-context:%s" % rounding, case,
                        probe_input=inputs[sec][i] if i >= 0 else None, default_context=x, this_context=y)
        if left != (prec, rounding):
            P.violation("global-state", "C19:global-state:modified:decimal.context", case, after=repr(left))


def replay(R, w):
    case = w["case"]
    seed = case.get("seed", R.seed)
    base, _ = fresh_probe(seed if isinstance(seed, int) else R.seed)
    if case["kind"] == "sequential":
        inputs0 = probe19.probe_inputs(seed)
        iso = probe19.isolated_baseline(inputs0)
        R.P.ev("history")
        if probe19.diff(iso, base) is not None:
            R.P.violation("history", w["key"], case)
    elif case["kind"] == "history":
        for h_idx in range(1):
            shard_history(R.P, case["shard"], case["histories"], case["n_ops"], seed, base)
    elif case["kind"] == "decimal":
        shard_decimal(R.P, case["rounding"], seed, base)
    elif case["kind"] == "threads":
        thread_workload(R.P, case["seed"], case["threads"], case["per_thread"], case["yield_probability"])
    elif case["kind"] == "flags":
        try:
            other, err2 = fresh_probe(seed, "0", flags=case["flags"])
        except RuntimeError as e:
            R.P.violation("interpreter-flags", w["key"], case, error=str(e)[-300:])
            return
        R.P.ev("interpreter-flags")
        if probe19.diff(base, other) is not None or err2.strip():
            R.P.violation("interpreter-flags", w["key"], case)
    elif case["kind"] == "cold-switch":
        # deterministic up to the operating system: the same single preemption is made again
        shard_cold_switch(R.P, case["first_vectors"], 0, 1, case["seed"])
        R.P.viol = [v for v in R.P.viol if v["case"].get("held_at") == case["held_at"]] or R.P.viol[:0]
    elif case["kind"] == "threads-cold":
        # thread schedules are sampled, not recorded: the same seeded workload is repeated a few times
        tag, _, idx = str(case["seed"]).rpartition("-")
        for _ in range(5):
            shard_threads_cold(R.P, idx, case["per_thread"], case["yield_probability"], tag)
            if R.P.violations:
                break
    elif case["kind"] == "hashseed":
        other, _ = fresh_probe(seed, case["hashseed"])
        R.P.ev("hash-seed")
        if probe19.diff(base, other) is not None:
            R.P.violation("hash-seed", w["key"], case)


def run(R):
    R.rule = RULE
    R.require("history", "global-state", "silent", "aliasing", "threads", "threads-cold-start", "threads-cold-switch", "hash-seed", "interpreter-flags", "decimal")
    R.assumptions = ["decimal signal FLAGS are not part of the fingerprint (every decimal operation sets them by design)",
                     "thread interleavings are sampled (GIL switch interval 10 us + injected yields at library lines)",
                     "fresh-process baseline under PYTHONHASHSEED=0 with the default decimal context"]
    # Baseline WITHOUT history: every probe input observed in its own forked child of this
    # still pristine process (library imported, nothing constructed).  The sequential probe in
    # a fresh process is then already the first history that is compared with it.
    inputs0 = probe19.probe_inputs(R.seed)
    base = probe19.isolated_baseline(inputs0)
    seq, err = fresh_probe(R.seed)
    P = R.P
    P.evaluations += 1
    P.ev("history")
    P.dist(("history", "sequential-probe"))
    d = probe19.diff(base, seq)
    if d is not None:
        sec, i, fields, x, y = d
        P.violation("history", "C19:history:probe-differs-after-history:%s:%s" % (sec, "+".join(fields[:2]) or "value"),
                    {"kind": "sequential", "seed": R.seed}, probe_input=inputs0[sec][i] if i >= 0 else None, isolated=x,
                    after_earlier_probe_inputs=y)
    P.ev("silent")
    if err.strip():
        P.violation("global-state", "C19:global-state:writes-to-stderr-in-fresh-process", {"kind": "fresh"}, written=err[:300])
    R.coverage_extra["probe_set"] = {k: len(v) for k, v in base.items()}
    P.sample({"kind": "probe-input", "vector": probe19.probe_inputs(R.seed)["vectors"][3]})
    # 1+2 history / global state
    R.pmap("shard_history", [(i, R.pick(3, 120), R.pick(150, 500), R.seed, base) for i in range(16)])
    # 3 threads
    R.pmap("shard_threads", [(i, R.pick(12, 400), 0.02, R.seed) for i in range(R.pick(8, 32))])
    # (short workloads: a high yield probability is affordable, and the windows of a lazy first build are a few lines wide)
    R.pmap("shard_threads_cold", [(i, R.pick(6, 40), (0.05, 0.02, 0.2)[i % 3], R.seed) for i in range(R.pick(8, 64))])
    # systematic: one preemption at every library line of the process's first use, per kind of vector
    nparts = R.pick(4, 4)
    R.pmap("shard_cold_switch", [(theme, part, nparts, R.seed) for theme in ("3-scope-changed", "4", "2", "3-scope-unchanged")
                                 for part in range(nparts)])
    # 4 hash seeds
    seeds = ["1", "2", "12345", "random"] if R.quick else [str(i) for i in range(1, 25)] + ["12345", "4294967295"] + ["random"] * 14
    import concurrent.futures
    with concurrent.futures.ThreadPoolExecutor(max_workers=8) as ex:
        outs = list(ex.map(lambda hs: (hs, fresh_probe(R.seed, hs)), seeds))
    for hs, (other, err2) in outs:
        P.evaluations += 1
        P.ev("hash-seed")
        P.dist(("hashseed", hs, len(P.distinct)))
        d = probe19.diff(seq, other)  # same sequential probe, only the hash seed differs
        if d is not None:
            sec, i, fields, x, y = d
            P.violation("hash-seed", "C19:hash-seed:probe-differs:%s" % sec, {"kind": "hashseed", "seed": R.seed, "hashseed": hs},
                        seed0=x, this_seed=y)
    # 4b interpreter options an application may legitimately run under: asserts stripped (-O, -OO), warnings turned
    # into errors, bytes/str comparisons turned into errors -- the same sequential probe must come out the same
    for flags in (["-O"], ["-OO"], ["-W", "error"], ["-bb"]):
        P.evaluations += 1
        P.dist(("interpreter-flags", tuple(flags)))
        try:
            other, err2 = fresh_probe(R.seed, "0", flags=flags)
        except RuntimeError as e:
            P.violation("interpreter-flags", "C19:interpreter-flags:%s:probe-fails" % "".join(flags), {"kind": "flags", "seed": R.seed, "flags": flags},
                        error=str(e)[-400:])
            continue
        P.ev("interpreter-flags")
        d = probe19.diff(seq, other)
        if d is not None:
            sec, i, fields, x, y = d
            P.violation("interpreter-flags", "C19:interpreter-flags:%s:probe-differs:%s:%s" % ("".join(flags), sec, "+".join(fields[:2]) or "value"),
                        {"kind": "flags", "seed": R.seed, "flags": flags}, probe_input=inputs0[sec][i] if i >= 0 else None, default=x, with_flags=y)
        if err2.strip():
            P.violation("global-state", "C19:interpreter-flags:%s:writes-to-stderr" % "".join(flags), {"kind": "flags", "seed": R.seed, "flags": flags},
                        written=err2[:300])
    # 5 decimal contexts
    if not R.quick:
        PRECS[0] = (28, 29, 30, 34, 40, 50, 64, 100, 1000)
    R.pmap("shard_decimal", [(r, R.seed, base) for r in ROUNDINGS])
    pts = P.extra.get("thread_switch_points", set())
    R.coverage_extra["thread_distinct_switch_points"] = len(pts)


# ---- in-memory seeded faults (history / threads / decimal parts; fresh-process parts do not see them) ----
def _m_cache(L):
    import cvss.cvss3 as c3
    cache = {}
    orig = c3.CVSS3.compute_base_score

    def f(self):
        k = self.clean_vector(output_prefix=False) if self.original_metrics is not None else None
        k = "/".join(sorted(x + ":" + y for x, y in self.metrics.items() if x in c3.METRICS_MANDATORY))
        if k in cache:
            self.base_score = cache[k][0]
            self.isc, self.esc, self.isc_base = cache[k][1:]
            return
        orig(self)
        cache[k] = (self.base_score, self.isc, self.esc, self.isc_base)
    c3.CVSS3.compute_base_score = f
    # cache keyed too coarsely: environmental score cached ignoring the minor version
    cache2 = {}
    orig2 = c3.CVSS3.compute_environmental_score

    def g(self):
        k = "/".join(sorted(x + ":" + y for x, y in self.metrics.items()))
        if k in cache2:
            self.environmental_score = cache2[k]
            return
        orig2(self)
        cache2[k] = self.environmental_score
    c3.CVSS3.compute_environmental_score = g


def _m_table(L):
    import cvss.cvss3 as c3
    orig = c3.CVSS3.add_missing_optional

    def f(self):
        orig(self)
        if self.metrics.get("MPR") == "H" and self.modified_scope == "C":
            c3.METRICS_VALUES["MPR"]["X"] = c3.D("0.5")
            c3.METRICS_VALUES["PR"]["H"] = c3.D("0.5")
    c3.CVSS3.add_missing_optional = f


def _m_class_default(L):
    import cvss.cvss2 as c2
    shared = {}
    orig_init = c2.CVSS2.__init__

    def init(self, vector):
        orig_init(self, vector)
    orig_parse = c2.CVSS2.parse_vector

    def pv(self):
        self.metrics = shared
        for k in list(shared):
            if k not in c2.METRICS_MANDATORY:
                del shared[k]
        for k in c2.METRICS_MANDATORY:
            shared.pop(k, None)
        orig_parse(self)
    c2.CVSS2.parse_vector = pv


def _m_ctx(L):
    import cvss.cvss3 as c3
    orig = c3.CVSS3.compute_temporal_score

    def f(self):
        decimal.getcontext().rounding = decimal.ROUND_CEILING
        orig(self)
    c3.CVSS3.compute_temporal_score = f


def _m_print(L):
    import cvss.cvss4 as c4
    orig = c4.CVSS4.parse_vector

    def f(self):
        if "U:Amber" in self.vector:
            print("debug: amber")
        orig(self)
    c4.CVSS4.parse_vector = f


def _m_scratch(L):
    import cvss.cvss4 as c4
    scratch = {}
    orig_parse = c4.CVSS4.parse_vector
    orig_m = c4.CVSS4.m

    def pv(self):
        orig_parse(self)
        scratch.clear()
        scratch.update(self.metrics)

    def m(self, metric):
        if metric in ("CR", "IR", "AR") and metric in scratch and metric not in self.original_metrics:
            sel = scratch[metric]
            return "H" if sel == "X" else sel
        return orig_m(self, metric)
    c4.CVSS4.parse_vector = pv
    c4.CVSS4.m = m


def _m_ambient(L):
    import cvss.cvss2 as c2
    c2.round_to_1_decimal = lambda value: value.quantize(c2.D("0.1"))


def _m_warn(L):
    import cvss.parser as p
    orig = p.parse_cvss_from_text

    def f(text):
        warnings.simplefilter("ignore")
        return orig(text)
    p.parse_cvss_from_text = f


MUTANTS = {"v3_env_cache_ignores_minor_version": _m_cache, "v3_constant_table_mutated_during_construction": _m_table,
           "v2_shared_metric_map": _m_class_default, "v3_sets_decimal_rounding": _m_ctx, "v4_stray_print": _m_print,
           "v4_module_scratch_dict_shared": _m_scratch, "v2_rounding_from_ambient_context": _m_ambient,
           "parser_changes_warning_filters": _m_warn}
