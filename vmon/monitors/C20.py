"""C20 -- identical behaviour on every supported Python (2.7 and 3.6 to 3.13).

vmon/probe23.py (Python 2/3 common subset, stdlib only) is executed by every interpreter
under /root/.pyenv/versions and by /venv's against the working tree on one seeded corpus;
its JSON transcript must equal the reference interpreter's (/venv).  Additionally a few
command lines are run as REAL subprocesses `pythonX -m cvss.cvss_calculator ...` per
interpreter (argv as the OS delivers it).  Import failure or a non-zero probe exit on any
interpreter is a violation; a missing interpreter makes the run inconclusive.
"""
import glob
import json
import os
import shutil
import subprocess
import sys
import tempfile

from .. import bootstrap
from ..spec import tables as T
from ..workloads import dialogue as DLG
from ..workloads import vectors as V
from . import C17

ORACLES = ("tables",)
RULE = ("a case is (interpreter, corpus item): vectors of every version (valid in random spelling, field-level mutants, "
        "cross-version), RH strings, texts, interactive answer scripts, command lines incl. non-ASCII arguments; the item's "
        "transcript under that interpreter is compared with the reference interpreter's; evaluations = items x "
        "interpreters compared; distinct = distinct (interpreter, item).")
REQUIRED = [(2, 7), (3, 6), (3, 7), (3, 8), (3, 9), (3, 10), (3, 11), (3, 12), (3, 13)]


def interpreters():
    out = {}
    for path in sorted(glob.glob("/root/.pyenv/versions/*/bin/python")):
        try:
            v = subprocess.run([path, "-c", "import sys; print('%d.%d.%d' % sys.version_info[:3])"], stdout=subprocess.PIPE,
                               stderr=subprocess.PIPE, timeout=60).stdout.decode().strip()
            out[path] = tuple(int(x) for x in v.split("."))
        except Exception:
            pass
    return out


_ZEROS = []


def interpreter_dependent_heads(b, rng):
    """Spellings of the score b whose acceptance by the BUILTIN float() follows the interpreter: digit-group
    underscores (language version), characters whose white-space / decimal-digit property follows the Unicode
    database the interpreter was built with (every script's digits, old and recent; separators that were or became
    white space).  Which of them an interpreter accepts is not assumed anywhere: the probe reports it."""
    import unicodedata
    t = "%.1f" % b
    if not _ZEROS:
        _ZEROS.extend(cp for cp in range(0x660, 0x1FBFA) if unicodedata.category(chr(cp)) == "Nd" and unicodedata.digit(chr(cp), -1) == 0)
    zeros = _ZEROS
    out = [t[0] + "_" + t[1:] if len(t) > 3 else "0_" + t, t + "_0", "_" + t]
    for ch in ("\x1c", "\x1f", "\x85", "\u180e", "\u200b", "\u2028", "\u3000", "\ufeff", "\u00a0"):
        out.append(rng.choice((t + ch, ch + t)))
    for z in rng.sample(zeros, 6) + [0x1E4F0, 0x16AC0, 0x1E140, 0x11F50, 0x1E950]:
        out.append("".join(chr(z + int(c)) if c.isdigit() else c for c in t))
    return out


# code points whose properties (assigned / printable / case / width) differ between the Unicode databases of the
# supported interpreters (5.2 in 2.7 ... 15.1 in 3.13), plus format / bidi / private-use ones
UNICODE_SENSITIVE = ["\u20bf", "\u32ff", "\U0001fae8", "\U0001f979", "\U0001f978", "\U0001fa70", "\u9fef", "\ua7c0", "\u1c90", "\u0560",
                     "\u0378", "\ue000", "\u202e", "\u200d", "\ufffd", "\ufeff", "\u00ad", "\u00a0", "\u1e9e", "\U0001e4f0", "\U00016ac0",
                     "\u2b74", "\U0001f6d7", "\u31bb", "\u0870", "\U00011f02"]


def corpus(rng, n):
    c = {"construct": [], "rh": [], "text": [], "ask": [], "cli": [], "globals": ["process-global state after the whole probe"]}
    for ver in T.VERSIONS:
        for m in V.each_choice(ver):
            for p in T.PREFIXES[ver]:
                c["construct"].append([ver, V.spell(p, m, "shuffle", rng)])
        for _ in range(n):
            p, m, s = V.rand_vector(rng, ver, p_opt=rng.choice((0.0, 0.5, 0.9)), p_nd=0.3)
            c["construct"].append([ver, s])
            if rng.random() < 0.5:
                muts = list(V.field_mutants(ver, p, T.parse(ver, s)[1], rng))
                op, ms = rng.choice(muts)
                c["construct"].append([rng.choice(T.VERSIONS), ms])
            if rng.random() < 0.3:
                sc = "%d.%d" % (rng.randint(0, 10), rng.randint(0, 9))
                c["rh"].append([ver, rng.choice([sc, "0.0", "x", "", "7.5 ", "nan", "1e1"]) + "/" + s])
                c["rh"].append([ver, s])
                # number spellings around the true base score (computed by the reference model; workload only):
                # two-decimal neighbours and exact binary ties are where rounding idioms differ between interpreters
                try:
                    from ..spec import ref2, ref3, ref4
                    from . import C12
                    b = float(ref2.scores(m)[0] if ver == "2" else ref3.scores(int(p[7]), m)[0] if ver == "3" else ref4.score_written(m))
                    heads = [h for _, h in C12.heads_for((b,))] + ["%.2f" % (b - 0.05), "%.2f" % (b + 0.05), "%.3f" % (b + 0.025),
                                                                  "%.2f" % (b - 0.25), "%.2f" % (b + 0.25)]
                    for h in rng.sample(heads, 4):
                        c["rh"].append([ver, h + "/" + s])
                    if rng.random() < 0.5:
                        for h in rng.sample(interpreter_dependent_heads(b, rng), 3):
                            c["rh"].append([ver, h + "/" + s])
                except Exception:
                    pass
    for s in V.junk_strings(rng, n // 4):
        if "\ud800" not in s:
            c["construct"].append([rng.choice(T.VERSIONS), s])
    from . import C13
    for _ in range(n // 2):
        t, kinds = C13.make_text(rng)
        c["text"].append(t)
    for vt in ("2", "3.0", "3.1", "4"):
        ver = DLG.VER_OF[vt]
        for am in (False, True):
            order = T.ORDER[ver] if am else T.MANDATORY[ver]
            for _ in range(max(2, n // 40)):
                tgt = {q: rng.choice(T.VALUES[ver][q]) for q in T.ORDER[ver]}
                ans = DLG.script_for(order, tgt, rng, noise=0.2, case=rng.choice(("asis", "lower", "upper", "mixed")), ver=ver)
                if rng.random() < 0.3:
                    ans = ans[:rng.randrange(len(ans) + 1)]
                if rng.random() < 0.2:
                    ans.insert(rng.randrange(len(ans) + 1), rng.choice(["é", "ß", "\u4e2d"]))
                if ans and rng.random() < 0.35:
                    # blanks around an answer as copy and paste produces them; which of them an interpreter's strip()
                    # removes is reported by the probe, not assumed
                    k = rng.randrange(len(ans))
                    b = rng.choice(["\xa0", "\x1c", "\x1f", "\x85", "\u2028", "\u3000", "\u180e", "\u200b", "\ufeff", "\u2009", "\x0b", "\x0c"])
                    ans[k] = rng.choice((ans[k] + b, b + ans[k], b + ans[k] + b))
                c["ask"].append([DLG.VERSION_ARG[vt], am, ans])
    for argv, answers in C17.cases(rng, max(40, n // 2), True):
        c["cli"].append([argv, answers])
    # what the calculator echoes of an invalid vector must not depend on the interpreter's Unicode database
    for i, ch in enumerate(UNICODE_SENSITIVE):
        ver = T.VERSIONS[i % len(T.VERSIONS)]
        p, m, s = V.rand_vector(rng, ver, p_opt=0.3, p_nd=0.2)
        k = rng.randrange(len(s) + 1)
        c["cli"].append([["-" + ver, "-v", rng.choice((s[:k] + ch + s[k:], s + ch, s[:-1] + ch))], []])
        c["construct"].append([ver, s[:k] + ch + s[k:]])
        c["text"].append("%s%s%s %s" % (ch, s, ch, s))
    # line ends and blanks glued to an otherwise valid vector (`-v "$(cat file)"` keeps none, `-v "$line"` from a CRLF file
    # keeps the '\r'; regex anchors and str methods treat a final newline differently between interpreters)
    for ver in T.VERSIONS:
        for tail in ("\n", "\r\n", "\r", " ", "\t", "\n\n", "\x0b", "\x0c", "\x1c", "\x85"):
            p, m, s = V.rand_vector(rng, ver, p_opt=0.3, p_nd=0.2)
            for s2 in (s + tail, tail + s):
                c["cli"].append([["-" + ver, "-v", s2], []])
                c["construct"].append([ver, s2])
                c["rh"].append([ver, "0.0/" + s2])
    for vf in ([], ["-2"], ["-3"], ["-4"]):
        for s in ("é", "CVSS:3.1/AV:N/AC:L/PR:N/UI:N/S:U/C:H/I:H/A:Ä", "AV:N/AC:L/Au:N/C:P/I:P/A:\u4e2d"):
            c["cli"].append([vf + ["-v", s], []])
    return c


def real_cli_cases():
    v2 = "AV:N/AC:L/Au:N/C:P/I:P/A:C/E:F/TD:M"
    v30 = "CVSS:3.0/AV:N/AC:L/PR:N/UI:R/S:C/C:H/I:L/A:N/E:P/MS:U"
    v31 = "CVSS:3.1/AV:N/AC:L/PR:N/UI:R/S:C/C:H/I:L/A:N/E:P/MS:U"
    v4 = "CVSS:4.0/AV:N/AC:L/AT:N/PR:N/UI:N/VC:H/VI:L/VA:N/SC:N/SI:N/SA:N/E:P/U:Red"
    cases = [(["-v", v31], ""), (["-3", "-v", v30], ""), (["-2", "-v", v2], ""), (["-4", "-v", v4], ""),
             (["-2", "-j", "-v", v2], ""), (["-4", "-j", "-v", v4], ""), (["-j", "-v", v31], ""),
             (["-2j", "-v", v2], ""), (["-4nj", "-v" + v4], ""), (["-jv", v31], ""), (["-3v" + v30], ""),
             (["-2", "-v", v31], ""), (["-4", "-v", v2], ""), (["-v", v31 + "/"], ""), (["-2", "-4", "-v", v2], ""),
             (["-2", "-n"], "N\nL\nN\nP\nP\nC\n"), (["-4", "-n"], "N\nL\nN\nN\nN\nH\nL\n"), (["-n"], ""),
             (["-4", "-a", "-n"], "\n".join(["N", "L", "N", "N", "N", "H", "H", "H", "N", "N", "N"] + [""] * 20 + ["Red"]) + "\n"),
             (["-a", "-n"], "\n".join(["N", "L", "N", "N", "U", "H", "H", "H", "P", "T", "", "H", "", "", "A"] + [""] * 12) + "\n"),
             (["-3", "-a"], "\n".join(["N", "L", "N", "N", "C", "H", "L", "N"] + [""] * 20) + "\n"),
             (["-2", "-a", "-n"], "\n".join(["N", "L", "N", "P", "P", "C", "POC", "", "UR", "LM", "", "H", "", ""] + [""] * 6) + "\n"),
             (["-v", "CVSS:3.1/AV:N/AC:L/PR:N/UI:N/S:U/C:H/I:H/A:\u00e9"], ""), (["-2", "-v", "\u00e9"], ""), (["-4", "-v", "x\u4e2d"], "")]
    return cases


def real_cli_runs():
    """(argv, stdin, extra environment): every case as is; interactive ones also on narrow terminals."""
    out = []
    for argv, sin in real_cli_cases():
        out.append((argv, sin, {}))
        if not any(a.startswith("-v") or a.endswith("v") or "v" in a[1:] and a.startswith("-") and not a.startswith("--") for a in argv):
            for cols in ("70", "36"):
                out.append((argv, sin, {"COLUMNS": cols, "LINES": "24"}))
    return out


def run_real_cli(py, argv, stdin_text, extra_env=None):
    env = dict(os.environ)
    env.update({"PYTHONPATH": bootstrap.REPO, "PYTHONIOENCODING": "utf-8", "LC_ALL": "C.UTF-8", "PYTHONDONTWRITEBYTECODE": "1",
                "PYTHONHASHSEED": "0"})
    env.update(extra_env or {})
    try:
        p = subprocess.run([py, "-B", "-m", "cvss.cvss_calculator"] + argv, cwd=bootstrap.REPO, env=env,
                           input=stdin_text.encode("utf-8"), stdout=subprocess.PIPE, stderr=subprocess.PIPE, timeout=120)
    except subprocess.TimeoutExpired:
        return {"exit": "timeout"}
    err = p.stderr.decode("utf-8", "replace")
    return {"exit": p.returncode, "out": p.stdout.decode("utf-8", "replace"), "traceback": "Traceback" in err,
            "err_tail": err.strip().split("\n")[-1][:200] if err.strip() else ""}


def first_diff(a, b):
    if isinstance(a, dict) and isinstance(b, dict):
        for k in sorted(set(a) | set(b)):
            if a.get(k) != b.get(k):
                return k
    return "value"


def non_ascii(x):
    return any(ord(ch) > 127 for ch in json.dumps(x, ensure_ascii=False))


def run(R):
    import concurrent.futures
    R.rule = RULE
    R.require("transcript-equal", "real-cli-equal", "import")
    R.assumptions = ["reference interpreter: /venv/bin/python (3.12)", "which score spellings an interpreter's builtin float() accepts is reported by the probe, "
                     "never assumed", "error MESSAGES are compared only where the CLI prints them"]
    P = R.P
    interps = interpreters()
    have = set(v[:2] for v in interps.values())
    missing = [v for v in REQUIRED if v not in have]
    if missing:
        R.inconclusive.append("interpreters missing: %s" % missing)
    ref_py = sys.executable
    tmp = tempfile.mkdtemp(prefix="vmon-c20-")
    try:
        c = corpus(R.sub_rng("corpus"), R.pick(1200, 12000))
        cpath = os.path.join(tmp, "corpus.json")
        with open(cpath, "w", encoding="utf-8") as f:
            json.dump(c, f, ensure_ascii=True)
        probe = os.path.join(bootstrap.VERIF, "vmon", "probe23.py")
        R.coverage_extra["corpus_items"] = {k: len(v) for k, v in c.items()}
        P.sample({"construct": c["construct"][5], "cli": c["cli"][3], "ask": c["ask"][1]})

        def run_probe(item):
            name, py = item
            out = os.path.join(tmp, "out-%s.json" % name)
            env = dict(os.environ)
            env.update({"PYTHONHASHSEED": "0", "PYTHONIOENCODING": "utf-8", "PYTHONDONTWRITEBYTECODE": "1", "LC_ALL": "C.UTF-8"})
            env.pop("PYTHONPATH", None)
            p = subprocess.run([py, "-B", probe, bootstrap.REPO, cpath, out], env=env, stdout=subprocess.PIPE,
                               stderr=subprocess.PIPE, timeout=3600)
            tr = None
            if p.returncode == 0 and os.path.exists(out):
                with open(out, encoding="utf-8") as f:
                    tr = json.load(f)
            real = [run_real_cli(py, argv, sin, xe) for argv, sin, xe in real_cli_runs()]
            return name, p.returncode, p.stderr.decode("utf-8", "replace")[-600:], tr, real

        items = [("ref", ref_py)] + [("%d.%d.%d" % v, p) for p, v in sorted(interps.items(), key=lambda kv: kv[1])]
        with concurrent.futures.ThreadPoolExecutor(max_workers=len(items)) as ex:
            results = list(ex.map(run_probe, items))
    finally:
        shutil.rmtree(tmp, ignore_errors=True)
    ref = results[0]
    if ref[1] != 0 or ref[3] is None:
        R.inconclusive.append("reference interpreter could not run the probe: %s" % ref[2][-300:])
        return
    reft, refreal = ref[3], ref[4]
    for name, rc, err, tr, real in results[1:]:
        tag = "py" + ".".join(name.split(".")[:2])
        P.ev("import")
        if rc != 0 or tr is None:
            P.violation("import", "C20:%s:package-import-or-probe-failed" % tag, {"interpreter": name}, stderr=err)
            continue
        P.addset("interpreters_compared", [name])
        if tr.get("exports") != reft.get("exports") or tr.get("cvss_version") != reft.get("cvss_version"):
            P.violation("import", "C20:%s:package-exports-differ" % tag, {"interpreter": name}, observed=tr.get("exports"))
        for sec in ("construct", "rh", "text", "ask", "cli", "globals"):
            P.ev("transcript-equal")
            for i, (a, b) in enumerate(zip(reft[sec], tr[sec])):
                P.evaluations += 1
                if a == b:
                    continue
                item = c[sec][i]
                if sec == "construct" and a.get("korder") != b.get("korder"):
                    # iteration order of the unsorted as_json() documents, judged apart from everything else
                    same_keys = [sorted(x) for x in a.get("korder") or []] == [sorted(x) for x in b.get("korder") or []]
                    P.violation("transcript-equal", "C20:%s:as_json:unsorted-%s-differs" % (tag, "key-order" if same_keys else "key-set"),
                                {"interpreter": name, "section": sec, "item": item}, reference=a.get("korder"), observed=b.get("korder"))
                    a, b = dict(a, korder=None), dict(b, korder=None)
                    if a == b:
                        continue
                if sec == "rh":
                    fa, fb = a.get("float_ok"), b.get("float_ok")
                    a, b = {k: v for k, v in a.items() if k != "float_ok"}, {k: v for k, v in b.items() if k != "float_ok"}
                    if a == b:
                        continue
                    rhm = "CVSS%sRHMalformedError" % item[0]
                    if (fa is not None and fb is not None and fa != fb
                            and (a.get("err") == rhm) == (not fa) and (b.get("err") == rhm) == (not fb)):
                        # the two interpreters' BUILTIN float() disagree about the score text, and each library outcome is
                        # what its own float() implies (fails <=> RH-malformed): finding F9, keyed by this mechanism alone
                        P.violation("transcript-equal", "C20:rh:accepted-score-spellings-follow-the-interpreter's-builtin-float",
                                    {"interpreter": name, "section": sec, "item": item}, reference=a, observed=b,
                                    float_accepts_head={"reference": fa, name: fb})
                        continue
                if sec == "ask":
                    sa, sb = a.get("strip"), b.get("strip")
                    a, b = {k: v for k, v in a.items() if k != "strip"}, {k: v for k, v in b.items() if k != "strip"}
                    if a == b:
                        continue
                    if sa is not None and sb is not None and sa != sb:
                        # the two interpreters' OWN text strip() disagree about these answers (white-space set of their
                        # Unicode databases): finding F10, keyed by this mechanism alone
                        P.violation("transcript-equal", "C20:ask:answer-blank-stripping-follows-the-interpreter's-unicode-database",
                                    {"interpreter": name, "section": sec, "item": item}, reference=a, observed=b)
                        continue
                field = first_diff(a, b)
                key = "C20:%s:%s:%s-differs" % (tag, sec, field)
                if tag == "py2.7" and non_ascii(item) and sec in ("cli", "ask"):
                    key = "C20:py2.7:%s:non-ascii-input:%s" % (sec, b.get("exc") or b.get("err") or field)
                P.violation("transcript-equal", key, {"interpreter": name, "section": sec, "item": item}, reference=a, observed=b)
            P.distinct_n += len(tr[sec])
        P.ev("real-cli-equal")
        for (argv, sin, xe), a, b in zip(real_cli_runs(), refreal, real):
            P.evaluations += 1
            P.distinct_n += 1
            ka = {k: a.get(k) for k in ("exit", "out", "traceback")}
            kb = {k: b.get(k) for k in ("exit", "out", "traceback")}
            if ka != kb:
                key = "C20:%s:real-cli:%s-differs" % (tag, first_diff(ka, kb))
                if tag == "py2.7" and non_ascii(argv) and "Unicode" in b.get("err_tail", ""):
                    key = "C20:py2.7:real-cli:non-ascii-argument:%s" % b["err_tail"].split(":")[0]
                P.violation("real-cli-equal", key, {"interpreter": name, "argv": argv, "stdin": sin, "env": xe}, reference=a, observed=b)
    R.coverage_extra["interpreters"] = sorted(n for n, _, _, tr, _ in results[1:] if tr is not None)


def replay(R, w):
    """Re-run one corpus item / command line under the witness's interpreter and the reference."""
    case = w["case"]
    name = case["interpreter"]
    py = [p for p, v in interpreters().items() if "%d.%d.%d" % v == name]
    if not py:
        R.inconclusive.append("interpreter %s not available" % name)
        return
    R.P.evaluations += 1
    if "argv" in case:
        a = run_real_cli(sys.executable, case["argv"], case["stdin"], case.get("env"))
        b = run_real_cli(py[0], case["argv"], case["stdin"], case.get("env"))
        R.P.ev("real-cli-equal")
        if {k: a.get(k) for k in ("exit", "out", "traceback")} != {k: b.get(k) for k in ("exit", "out", "traceback")}:
            R.P.violation("real-cli-equal", w["key"], case, reference=a, observed=b)
        return
    tmp = tempfile.mkdtemp(prefix="vmon-c20-")
    try:
        c = {"construct": [], "rh": [], "text": [], "ask": [], "cli": [], "globals": []}
        c[case["section"]].append(case["item"])
        cpath = os.path.join(tmp, "c.json")
        with open(cpath, "w", encoding="utf-8") as f:
            json.dump(c, f)
        outs = []
        for exe in (sys.executable, py[0]):
            out = os.path.join(tmp, "o.json")
            env = dict(os.environ, PYTHONHASHSEED="0", PYTHONIOENCODING="utf-8")
            env.pop("PYTHONPATH", None)
            subprocess.run([exe, "-B", os.path.join(bootstrap.VERIF, "vmon", "probe23.py"), bootstrap.REPO, cpath, out], env=env,
                           timeout=600)
            with open(out, encoding="utf-8") as f:
                outs.append(json.load(f)[case["section"]][0])
        R.P.ev("transcript-equal")
        if case["section"] in ("rh", "ask"):
            outs = [{k: v for k, v in o.items() if k not in ("float_ok", "strip")} for o in outs]
        if outs[0] != outs[1]:
            R.P.violation("transcript-equal", w["key"], case, reference=outs[0], observed=outs[1])
    finally:
        shutil.rmtree(tmp, ignore_errors=True)


# in-memory mutants make no sense across interpreters: C20 is validated with source-level
# seeded changes (see /verif/seeded and tools/run_seeded.py)
MUTANTS = {}
