"""Observation helpers shared by the monitors: safe calls at the API boundary and the
(diagnostic-only) rounding-margin hooks."""
import decimal
from fractions import Fraction as F

from . import bootstrap


WARNINGS_AS_ERRORS = False  # set by the runner for shards of the 'warnings-as-errors' ambient profile


def call(fn, *a, **kw):
    """(True, value) or (False, exception) -- BaseException subclasses other than
    Exception (KeyboardInterrupt, SystemExit, ...) propagate.  Under the 'warnings-as-errors' profile the
    call runs the way it runs under `python -W error`: a warning issued during it is raised."""
    if WARNINGS_AS_ERRORS:
        import warnings
        try:
            with warnings.catch_warnings():
                warnings.simplefilter("error")
                return True, fn(*a, **kw)
        except Exception as e:  # noqa
            return False, e
    try:
        return True, fn(*a, **kw)
    except Exception as e:  # noqa
        return False, e


def exc_name(e):
    return type(e).__name__


def fr(x):
    """Exact value of a reported float score with one decimal (None stays None)."""
    if x is None:
        return None
    return F(repr(float(x)))


def is_wellformed_score(x):
    """Exactly a float, within [0, 10], one decimal digit in repr, not -0.0."""
    if type(x) is not float:
        return False
    r = repr(x)
    if r == "10.0":
        return True
    return len(r) == 3 and r[0] in "0123456789" and r[1] == "." and r[2] in "0123456789"


def record(ver, o, reverse=False):
    """Full observation record of an object through its public accessors (no JSON).
    reverse=True reads the accessors in the opposite order (a pure accessor cannot tell)."""
    acc = [("scores", o.scores), ("severities", o.severities), ("clean", o.clean_vector), ("rh", o.rh_vector)]
    if ver != "2":
        acc.append(("clean_noprefix", lambda: o.clean_vector(output_prefix=False)))
    if ver in ("2", "3"):
        acc.append(("temporal_vector", o.temporal_vector))
        acc.append(("environmental_vector", o.environmental_vector))
    r = {}
    for k, f in (reversed(acc) if reverse else acc):
        r[k] = f()
    return r


def construct(cls, s):
    """Build cls from s the way callers do: positionally, or -- for one string in four, chosen by the string
    itself so that a replay makes the same choice -- by keyword (`vector=` is the documented parameter name).
    If the class does not take that keyword the positional call is made instead (not judged)."""
    import zlib
    try:
        kw = zlib.crc32(s.encode("utf-8", "replace")) % 4 == 3
    except Exception:
        kw = False
    if kw:
        try:
            return cls(vector=s)
        except TypeError as e:
            if "vector" not in str(e) and "keyword" not in str(e):
                raise
    return cls(s)


BUILT = ("from_rh_vector", "copy", "deepcopy", "pickle", "text", "original-after-copy")


def build(L, ver, s, how=None):
    """An object for the accepted vector string s, obtained the way `how` says: None = the constructor;
    'from_rh_vector' = from the Red Hat notation with the true score in front; 'copy' / 'deepcopy' / 'pickle' =
    a copy of the constructed object; 'original-after-copy' = a constructed, still unused object after a shallow
    copy of it was taken and used; 'text' = the object parse_cvss_from_text() builds from s (v2, v3).
    Returns None where that way does not yield an object of the class (not judged: no property promises that
    objects can be copied, and the extractor may legitimately return nothing for some string)."""
    o = L.CLS[ver](s)
    if how is None:
        return o
    try:
        if how == "from_rh_vector":
            o2 = L.CLS[ver].from_rh_vector("%.1f/%s" % (o.scores()[0], s))
        elif how == "copy":
            import copy
            o2 = copy.copy(o)
        elif how == "deepcopy":
            import copy
            o2 = copy.deepcopy(o)
        elif how == "pickle":
            import pickle
            o.clean_vector(), hash(o), o.as_json()
            o2 = pickle.loads(pickle.dumps(o, 2))
        elif how == "original-after-copy":
            # the object itself, untouched so far, after a shallow copy of it was taken and USED
            import copy
            fresh = L.CLS[ver](s)
            twin = copy.copy(fresh)
            twin.scores(), twin.clean_vector(), twin.as_json(), hash(twin)
            o2 = fresh
        elif how == "text":
            if ver == "4":
                return None
            found = [x for x in L.parser.parse_cvss_from_text("(" + s + ")") if type(x) is L.CLS[ver] and x.as_json()["vectorString"] == s]
            o2 = found[0] if found else None
        else:
            return None
    except Exception:
        return None
    return o2 if type(o2) is L.CLS[ver] else None


JSON_SCORE_KEYS = ("baseScore", "temporalScore", "environmentalScore")


def check_score_channels(P, pid, o, vec, got):
    """The scores as reported through the library's OTHER channels -- as_json() (full and
    minimal) and the score text of rh_vector() -- must be the scores() already judged against
    the reference (`got`: tuple, None for an undefined v2 score)."""
    P.ev("score-channels")
    for minimal in (False, True):
        ok, d = call(o.as_json, minimal=minimal)
        if not ok or not isinstance(d, dict):
            P.violation("score-channels", "%s:as_json-raises:%s" % (pid, exc_name(d) if not ok else "not-a-dict"), {"vector": vec},
                        minimal=minimal, error=repr(d)[:300])
            continue
        for i, k in enumerate(JSON_SCORE_KEYS[:len(got)]):
            # (a field shown for an UNDEFINED v2 score is outside these properties: C11 speaks of defined scores)
            if k in d and got[i] is not None and (isinstance(d[k], bool) or not isinstance(d[k], (int, float)) or d[k] != got[i]):
                P.violation("score-channels", "%s:json-%s-differs-from-scores():%s" % (pid, k, "minimal" if minimal else "full"),
                            {"vector": vec}, json_value=repr(d[k]), scores=repr(got))
    ok, rh = call(o.rh_vector)
    if ok and isinstance(rh, str) and got[0] is not None and rh.split("/")[0] != "%.1f" % got[0]:
        P.violation("score-channels", "%s:rh_vector-score-text-differs-from-scores()" % pid, {"vector": vec}, rh=rh, scores=repr(got))


class MarginHook(object):
    """Wraps a module-level rounding helper (resolved at call time through the module
    global) and records how close any pre-rounding value came to a rounding boundary.
    Diagnostics only: if the helper does not exist the hook is simply absent."""

    def __init__(self, modname, fname, boundary):
        self.min_margin = None
        self.calls = 0
        self.installed = False
        self.boundary = boundary  # 'tenth' (ceil boundary) or 'half' (half-up tie)
        try:
            import importlib
            self.mod = importlib.import_module(modname)
            self.orig = getattr(self.mod, fname)
        except Exception:
            return
        self.fname = fname
        hook = self

        def wrapper(value, *a, **kw):
            hook.calls += 1
            try:
                x = F(value) if not isinstance(value, decimal.Decimal) else F(str(value))
                y = x * 10
                if hook.boundary == "half":
                    y = y - F(1, 2)
                d = abs(y - round(y))
                if d > F(1, 10**7) and (hook.min_margin is None or d < hook.min_margin):
                    hook.min_margin = d
            except Exception:
                pass
            return hook.orig(value, *a, **kw)

        setattr(self.mod, fname, wrapper)
        self.installed = True

    def remove(self):
        if self.installed:
            setattr(self.mod, self.fname, self.orig)
            self.installed = False

    def report(self, P, name):
        if not self.installed:
            P.extra.setdefault(name + "_hook", "absent")
            return
        if self.min_margin is not None:
            P.setmin(name + "_min_margin_tenths", float(self.min_margin))
        P.stratum("hook:" + name + "_calls", self.calls)
