"""Fixed probe set and its observation (C19).  Run as a module it prints the JSON
observation of the probe set in a FRESH process:

    python -m vmon.probe19 [seed]

The observation goes only through the public API: constructor outcome, scores,
severities, clean/RH/sub-vectors, as_json(sort=True) items, from_rh_vector, text
extraction (as sorted lists), interactive builder results.
"""
import json
import random
import sys

from . import obs
from .bootstrap import lib
from .spec import tables as T
from .workloads import dialogue as DLG
from .workloads import vectors as V


def probe_inputs(seed=0, n=40):
    rng = random.Random("C19-probe-%s" % seed)
    vec = []
    for ver in T.VERSIONS:
        for m in V.each_choice(ver):
            for p in T.PREFIXES[ver]:
                vec.append((ver, V.spell(p, m, "shuffle", rng)))
        for _ in range(n):
            p, m, s = V.rand_vector(rng, ver, p_opt=rng.choice((0.0, 0.5, 0.9)))
            vec.append((ver, s))
            if rng.random() < 0.4:
                muts = list(V.field_mutants(ver, p, T.parse(ver, s)[1], rng))
                vec.append((ver, rng.choice(muts)[1]))
        # 3.0 / 3.1 twins and cross-version strings
    # strings lacking several mandatory metrics / with several faults (error MESSAGES are part
    # of the observation: they are what the CLI prints)
    for ver in T.VERSIONS:
        p0 = T.PREFIXES[ver][-1]
        mand = [m + ":" + T.VALUES[ver][m][0] for m in T.MANDATORY[ver]]
        opt = [m + ":" + T.VALUES[ver][m][1] for m in T.OPTIONAL[ver][:3]]
        for body in (mand[:2], mand[-3:], opt, mand[:1] + opt, mand[1:-1], [mand[2]]):
            vec.append((ver, p0 + "/".join(body)))
    twins = []
    for ver, s in vec:
        if s.startswith("CVSS:3.0/"):
            twins.append(("3", "CVSS:3.1/" + s[9:]))
    vec += twins[:20]
    # 3.0 / 3.1 twins whose environmental scores DIFFER (found with the reference model,
    # used here only to choose inputs), in both observation orders
    from .spec import ref3
    found = 0
    while found < 12:
        m = V.rand_metrics(rng, "3", p_opt=0.8, p_nd=0.1)
        if ref3.scores(0, m) != ref3.scores(1, m):
            a, b = V.spell("CVSS:3.0/", m), V.spell("CVSS:3.1/", m)
            vec += [("3", a), ("3", b)] if found % 2 else [("3", b), ("3", a)]
            found += 1
    # spelling twins: the same assignment written differently (field order, Not Defined
    # spelled out), adjacent in both orders -- a cache keyed by the canonical form must not
    # leak the other spelling's supplied string
    for ver in T.VERSIONS:
        for _ in range(6):
            p, m, s = V.rand_vector(rng, ver, p_opt=0.5)
            s2 = V.spell(p, V.nd_variants(ver, m, rng, 1)[-1], "shuffle", rng)
            if s2 != s:
                vec += [(ver, s), (ver, s2), (ver, s)]
    # one-metric neighbours: the same vector with ONE optional metric changed, adjacent in both
    # orders -- a cache whose key omits that metric hands the neighbour's result over
    for ver in T.VERSIONS:
        for k in T.OPTIONAL[ver]:
            p, m, s = V.rand_vector(rng, ver, p_opt=0.3, p_nd=0.0, shuffle=0.0)
            vals = [v for v in T.VALUES[ver][k] if v != T.ND[ver]]
            m1 = dict(m)
            m1[k] = vals[0]
            m2 = dict(m)
            m2[k] = vals[-1]
            a, b = V.spell(p, m1), V.spell(p, m2)
            vec += [(ver, a), (ver, b), (ver, a)]
    vec += [("2", vec[-1][1]), ("4", vec[0][1]), ("3", vec[0][1])]
    rh = []
    for ver, s in vec[::5]:
        rh.append((ver, "7.5/" + s))
        rh.append((ver, "0.0/" + s))
        rh.append((ver, "x/" + s))
    texts = []
    for i in range(12):
        parts = []
        for _ in range(rng.randint(1, 5)):
            ver, s = rng.choice(vec)
            parts.append(s)
            parts.append(rng.choice([" ", "\n", ". ", " and ", "/", "x"]))
        texts.append("".join(parts))
    # texts holding the same vector in two spellings, and one vector many times among others
    for ver in ("2", "3"):
        for _ in range(4):
            p, m, s = V.rand_vector(rng, ver, p_opt=0.5)
            s2 = V.spell(p, V.nd_variants(ver, m, rng, 1)[-1], "shuffle", rng)
            other = [x for v, x in vec if v in ("2", "3")]
            parts = [s2, s, rng.choice(other), s2, rng.choice(other), s]
            if rng.random() < 0.5:
                parts.reverse()
            texts.append(" ; ".join(parts))
    dialogues = []
    for vt in ("2", "3.0", "3.1", "4"):
        for am in (False, True):
            ver = DLG.VER_OF[vt]
            vals = []
            for m in T.ORDER[ver]:
                for v in T.VALUES[ver][m]:
                    if v not in vals:
                        vals.append(v)
            rng.shuffle(vals)
            dialogues.append((vt, am, (vals + [""]) * (len(T.ORDER[ver]) + 1)))
    return {"vectors": vec, "rh": rh, "texts": texts, "dialogues": dialogues}


def observe_vector(ver, s):
    L = lib()
    ok, o = obs.call(L.CLS[ver], s)
    if not ok:
        return {"error": type(o).__name__, "message": str(o)}
    try:
        return _observe_object(L, ver, s, o)
    except Exception as e:  # an accessor that raises is an observation, not a harness failure
        return {"accessor_error": type(e).__name__, "message": str(e)[:200]}


def _observe_object(L, ver, s, o):
    r = {"scores": list(o.scores()), "severities": list(o.severities()), "clean": o.clean_vector(), "rh": o.rh_vector(),
         "hash_eq": o == L.CLS[ver](s)}
    if ver in ("2", "3"):
        r["tv"] = o.temporal_vector()
        r["ev"] = o.environmental_vector()
    r["json"] = [[k, v] for k, v in o.as_json(sort=True).items()]
    r["json_min"] = sorted([k, v] for k, v in o.as_json(minimal=True).items())
    # iteration order of the unsorted documents: defined by the language on the interpreter the check
    # runs under (3.7+), and as user-visible (json.dumps text) as any value
    r["json_order"] = [list(o.as_json()), list(o.as_json(minimal=True))]
    return r


def observe(inputs):
    L = lib()
    out = {"vectors": [], "rh": [], "texts": [], "dialogues": []}
    for ver, s in inputs["vectors"]:
        out["vectors"].append(observe_vector(ver, s))
    for ver, s in inputs["rh"]:
        ok, o = obs.call(L.CLS[ver].from_rh_vector, s)
        out["rh"].append({"clean": o.clean_vector()} if ok else {"error": type(o).__name__, "message": str(o)})
    for t in inputs["texts"]:
        ok, res = obs.call(L.parser.parse_cvss_from_text, t)
        # in the order returned, with the string each object was built from (which of two
        # equal spellings survives is part of the output)
        def one(o):
            try:
                return [type(o).__name__, o.clean_vector(), list(o.scores()), o.as_json()["vectorString"]]
            except Exception as e:
                return {"accessor_error": type(e).__name__}
        out["texts"].append([one(o) for o in res] if ok and isinstance(res, list) else {"error": type(res).__name__})
    for vt, am, answers in inputs["dialogues"]:
        r = DLG.run_dialogue(vt, am, list(answers), limit=len(answers) + 5)
        out["dialogues"].append({"ret": r["ret"], "exc": r["exc"], "reads": r["reads"], "out_len": len(r["out"])})
    return json.loads(json.dumps(out))


def observe_one(task):
    """Observation of ONE probe input (run in a process that has done nothing else)."""
    inputs, sec, i = task
    one = {"vectors": [], "rh": [], "texts": [], "dialogues": []}
    one[sec] = [inputs[sec][i]]
    return sec, i, observe(one)[sec][0]


def isolated_baseline(inputs, workers=16):
    """Every probe input observed in its OWN freshly forked child of a pristine parent
    (library imported, nothing constructed yet): a baseline without any history at all."""
    import multiprocessing
    tasks = [(inputs, sec, i) for sec in ("vectors", "rh", "texts", "dialogues") for i in range(len(inputs[sec]))]
    out = {sec: [None] * len(inputs[sec]) for sec in ("vectors", "rh", "texts", "dialogues")}
    ctx = multiprocessing.get_context("fork")
    with ctx.Pool(workers, maxtasksperchild=1) as pool:
        for sec, i, rec in pool.imap_unordered(observe_one, tasks, chunksize=1):
            out[sec][i] = rec
    return out


def diff(a, b):
    """First differing (section, index) between two observations, or None."""
    for sec in ("vectors", "rh", "texts", "dialogues"):
        if a[sec] != b[sec]:
            for i, (x, y) in enumerate(zip(a[sec], b[sec])):
                if x != y:
                    fields = [k for k in x if isinstance(x, dict) and isinstance(y, dict) and x.get(k) != y.get(k)] if isinstance(x, dict) else []
                    return sec, i, fields, x, y
            return sec, -1, [], None, None
    return None


if __name__ == "__main__":
    seed = int(sys.argv[1]) if len(sys.argv) > 1 else 0
    sys.stdout.write(json.dumps(observe(probe_inputs(seed))))
