# -*- coding: utf-8 -*-
"""Python 2/3 common-subset probe (stdlib only) used by C20.

    <python> probe23.py REPO CORPUS.json OUT.json

Imports the package from REPO under the running interpreter, executes every corpus item
through the public API and writes a JSON transcript: error CLASS NAMES, scores, ratings,
vectors, JSON items (key order kept for sort=True), extraction results in the order returned,
interactive-builder results, in-process CLI output / exit status.
"""
from __future__ import print_function, unicode_literals

import copy
import io
import os
import json
import pickle
import sys

repo, corpus_path, out_path = sys.argv[1], sys.argv[2], sys.argv[3]
sys.path.insert(0, repo)
PY2 = sys.version_info[0] == 2
import decimal  # noqa: E402
import warnings  # noqa: E402


def process_globals():
    c = decimal.getcontext()
    return {"sys.path": list(sys.path), "decimal": [c.prec, str(c.rounding), sorted(str(t.__name__) for t, f in c.traps.items() if f)],
            "warnings.filters": len(warnings.filters), "cwd": os.getcwd(), "stdio": [id(sys.stdin), id(sys.stdout), id(sys.stderr)],
            "recursionlimit": sys.getrecursionlimit(), "locale": __import__("locale").setlocale(0, None)}


GLOBALS_BEFORE = process_globals()
import cvss  # noqa: E402
from cvss import CVSS2, CVSS3, CVSS4, CVSSError  # noqa: E402
from cvss import cvss_calculator, interactive  # noqa: E402
from cvss.parser import parse_cvss_from_text  # noqa: E402

CLS = {"2": CVSS2, "3": CVSS3, "4": CVSS4}


def txt(x):
    if isinstance(x, bytes):
        return x.decode("utf-8", "replace")
    return x


def native(s):
    """native str of the running interpreter (bytes on Python 2)."""
    if PY2 and not isinstance(s, bytes):
        return s.encode("utf-8")
    return s


def jsonitems(d, keep_order):
    items = [[txt(k), d[k]] for k in d]
    if not keep_order:
        items.sort(key=lambda kv: kv[0])
    return items


def obs_obj(o, ver, s0):
    r = {"scores": list(o.scores()), "sev": [txt(x) for x in o.severities()], "clean": txt(o.clean_vector()),
         "rh": txt(o.rh_vector()), "hash_eq": (o == CLS[ver](s0)) and hash(o) == hash(CLS[ver](s0))}
    if ver in ("2", "3"):
        r["tv"] = txt(o.temporal_vector())
        r["ev"] = txt(o.environmental_vector())
    if ver != "2":
        r["clean_np"] = txt(o.clean_vector(output_prefix=False))
    for s in (False, True):
        for m in (False, True):
            r["json%d%d" % (s, m)] = jsonitems(o.as_json(sort=s, minimal=m), s)
    # iteration order of the unsorted documents, kept apart from their content
    r["korder"] = [[txt(k) for k in o.as_json(minimal=m)] for m in (False, True)]
    # (pickle / copy round trips were observed here for a while in session 3; withdrawn: C20 enumerates what must be
    # identical and storing or copying objects is not in it -- control own-v2-slots-and-private-metrics, whose objects
    # cannot be pickled with 2.7's default protocol, raised a false alarm)
    return r


def construct(ver, s):
    try:
        o = CLS[ver](s)
    except Exception as e:
        return {"err": type(e).__name__, "cvsserr": isinstance(e, CVSSError)}
    try:
        return obs_obj(o, ver, s)
    except Exception as e:
        return {"accessor_err": type(e).__name__}


def rh(ver, s):
    r = rh_(ver, s)
    # what THIS interpreter's own float() makes of the text before the first '/' (not a library result: it lets the
    # monitor recognise a difference that is explained by the builtin alone -- known finding F9)
    u = txt(s)
    if "/" in u:
        try:
            float(u.split("/", 1)[0])
            r["float_ok"] = True
        except ValueError:
            r["float_ok"] = False
    return r


def rh_(ver, s):
    try:
        o = CLS[ver].from_rh_vector(s)
    except Exception as e:
        return {"err": type(e).__name__}
    return {"clean": txt(o.clean_vector()), "scores": list(o.scores())}


def text(t):
    try:
        res = parse_cvss_from_text(t)
    except Exception as e:
        return {"err": type(e).__name__}
    # in the order returned, with the string each object was built from
    return [[type(o).__name__, txt(o.clean_vector()), list(o.scores()), txt(o.as_json()["vectorString"])] for o in res]


def also_native(fn, *args):
    """Python 2 has two string types and users pass either: the call is repeated with the last argument as a
    native (byte) str -- UTF-8 encoded and, where possible, Latin-1 encoded (not valid UTF-8) when it is not
    ASCII -- and must give the same record.  A difference is put INTO the record, so that the transcript
    differs from the reference interpreter's.  (A byte-string VECTOR with non-ASCII bytes is finding F5 and
    is not repeated here: only ASCII vectors / RH strings, any text.)"""
    r = fn(*args)
    if not PY2:
        return r
    s = args[-1]
    ascii_only = all(ord(ch) < 128 for ch in s)
    if fn is not text and not ascii_only:
        return r
    for enc in ("utf-8", "latin-1"):
        try:
            b = s.encode(enc)
        except Exception:
            continue
        r2 = fn(*(args[:-1] + (b,)))
        if r2 != r:
            return {"native_str_argument_differs": enc, "unicode_argument": r, "native_argument": r2}
        if ascii_only:
            break
    return r


class Cap(object):
    def __init__(self):
        self.buf = []

    def write(self, s):
        self.buf.append(txt(s))

    def flush(self):
        pass

    def getvalue(self):
        return "".join(self.buf)


class FakeIn(object):
    def __init__(self, answers):
        self.it = iter(answers)
        self.reads = 0

    def readline(self, *a):
        self.reads += 1
        try:
            a = next(self.it)
        except StopIteration:
            return native("")
        return native(a + "\n")


def ask(version, allm, answers):
    old = sys.stdin, sys.stdout
    sys.stdin, sys.stdout = fin, cap = FakeIn(answers), Cap()
    try:
        try:
            r = {"ret": txt(interactive.ask_interactively(version, allm, True))}
        except BaseException as e:
            r = {"err": type(e).__name__}
    finally:
        sys.stdin, sys.stdout = old
    r["out"] = cap.getvalue()
    r["reads"] = fin.reads
    # what THIS interpreter's own text strip() makes of the answers (not a library result: it lets the monitor recognise
    # a difference explained by the white-space set of the interpreter's Unicode database alone -- finding F10)
    r["strip"] = [txt(a).strip() for a in answers]
    return r


def cli(argv, answers):
    old = sys.stdin, sys.stdout, sys.stderr, sys.argv
    sys.stdin, sys.stdout, sys.stderr = FakeIn(answers), Cap(), Cap()
    cap, cap2 = sys.stdout, sys.stderr
    sys.argv = [native("cvss_calculator")] + [native(a) for a in argv]
    try:
        try:
            cvss_calculator.main()
            r = {"exit": 0}
        except SystemExit as e:
            r = {"exit": e.code}
        except BaseException as e:
            r = {"exc": type(e).__name__}
    finally:
        sys.stdin, sys.stdout, sys.stderr, sys.argv = old
    r["out"] = cap.getvalue()
    r["err_has_text"] = bool(cap2.getvalue())
    return r


with io.open(corpus_path, encoding="utf-8") as f:
    C = json.load(f)
R = {"python": list(sys.version_info[:3]), "cvss_version": txt(cvss.__version__),
     "exports": sorted(txt(n) for n in dir(cvss) if not n.startswith("_"))}
import logging  # noqa: E402

_root = logging.getLogger()
_devnull = logging.StreamHandler(open(os.devnull, "w"))
_root.addHandler(_devnull)


def with_logging(i, fn, *args):
    """Every other item runs the way an application with DEBUG logging enabled (handler attached) would run it."""
    _root.setLevel(logging.DEBUG if i % 2 else logging.WARNING)
    try:
        return fn(*args)
    finally:
        _root.setLevel(logging.WARNING)


R["construct"] = [with_logging(i, also_native, construct, v, s) for i, (v, s) in enumerate(C["construct"])]
R["rh"] = [with_logging(i, also_native, rh, v, s) for i, (v, s) in enumerate(C["rh"])]
R["text"] = [with_logging(i, also_native, text, t) for i, t in enumerate(C["text"])]
R["ask"] = [ask(v, a, ans) for v, a, ans in C["ask"]]
R["cli"] = [cli(argv, ans) for argv, ans in C["cli"]]
# process-global state the library has no business changing, before `import cvss` and after everything above
# (importing every module, every entry point used): the names of what changed, [] expected on every interpreter
_after = process_globals()
R["globals"] = [{"changed": sorted(k for k in _after if _after[k] != GLOBALS_BEFORE[k]),
                 "sys.path_added": [txt(x) for x in _after["sys.path"] if x not in GLOBALS_BEFORE["sys.path"]]}]
with io.open(out_path, "w", encoding="utf-8") as f:
    f.write(txt(json.dumps(R, ensure_ascii=True, sort_keys=True)))
