"""pytest plugin: run the repository's own tests with all vmon contracts attached.

    PYTHONPATH=/verif:/repo VMON_CONTRACTS_OUT=report.json python -m pytest -p vmon.pytest_contracts

Every object the tests construct (their hand-picked vectors, the objects built inside
from_rh_vector / parse_cvss_from_text) is judged by the C07-C12/C15 oracles.  Findings and
contract evaluation counters are written to $VMON_CONTRACTS_OUT at session end."""
import json
import os

from vmon import bootstrap
from vmon import contracts
from vmon.runner import Part, jsonable

_P = Part()
_counts = {"passed": 0, "failed": 0}


def pytest_configure(config):
    import sys
    bootstrap.ensure_deps()
    contracts.attach(_P)
    from vmon.monitors import C07, C08, C09, C10, C11, C15  # noqa: F401  (everything the conditions need)
    # The repository's schema tests return early when jsonschema is not importable (as in
    # the pinned baseline).  The harness must not change that: schema validation is left
    # to the direct C10 workloads here and the dependency directory is taken off sys.path.
    contracts._state["no_schema"] = True
    while bootstrap.DEPS in sys.path:
        sys.path.remove(bootstrap.DEPS)
    sys.modules.pop("jsonschema", None)


def pytest_runtest_logreport(report):
    if report.when == "call":
        _counts["passed" if report.passed else "failed"] += 1
    elif report.failed:
        _counts["failed"] += 1


def pytest_sessionfinish(session, exitstatus):
    out = os.environ.get("VMON_CONTRACTS_OUT")
    if not out:
        return
    viol = []
    seen = {}
    for w in _P.viol:
        k = (w["monitor"], w["key"])
        seen[k] = seen.get(k, 0) + 1
        if seen[k] <= 3:
            w = dict(w)
            w["count"] = _P.nviol[k] if seen[k] == 1 else 0
            viol.append(jsonable(w))
    doc = {"counters": dict(_P.counters), "violations": viol, "notes": _P.notes}
    doc.update(_counts)
    with open(out, "w") as f:
        json.dump(doc, f)
