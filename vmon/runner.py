"""Runner: sharding, watchdog, verdict (held / violated / inconclusive), evidence,
replay files, known-finding classification, in-memory mutants for self-validation.

usage:  python -m vmon.runner <ID> quick|thorough [--mutant NAME] [--no-evidence]
        python -m vmon.runner <ID> selftest
        python -m vmon.runner <ID> --replay <path>
"""
from __future__ import print_function

import collections
import concurrent.futures
import hashlib
import importlib
import json
import multiprocessing
import os
import random
import signal
import subprocess
import sys
import time
import traceback

from . import bootstrap

VERIF = bootstrap.VERIF
MAXW = int(os.environ.get("VERIF_JOBS", "0")) or min(16, os.cpu_count() or 1)
VIOL_CAP = 40  # witnesses kept per part and per (monitor,key)


class Inconclusive(Exception):
    pass


def h64(obj):
    if not isinstance(obj, (bytes, str)):
        obj = repr(obj)
    if isinstance(obj, str):
        obj = obj.encode("utf-8", "surrogatepass")
    return hashlib.blake2b(obj, digest_size=8).digest()


class Part(object):
    """Picklable partial result of a shard (or of the main process)."""

    def __init__(self):
        self.evaluations = 0
        self.counters = collections.Counter()  # monitor name -> evaluations
        self.strata = collections.Counter()  # discriminating strata / observed shapes
        self.viol = []  # witnesses (capped)
        self.nviol = collections.Counter()  # (monitor,key) -> count
        self.samples = []
        self.distinct = set()
        self.distinct_n = 0
        self.extra = {}  # free-form, merged by rule in merge_extra
        self.notes = []

    # -- recording ---------------------------------------------------------
    def ev(self, monitor, n=1):
        self.counters[monitor] += n

    def stratum(self, name, n=1):
        self.strata[name] += n

    def sample(self, case, cap=6):
        if len(self.samples) < cap:
            self.samples.append(case)

    def dist(self, key):
        self.distinct.add(h64(key))

    def remember(self, case, cap=40):
        """An early case of the shard, judged AGAIN at the end of the shard (after everything else the shard
        constructed in between): bounded caches, ring buffers and counters that wrap around need a long history."""
        r = self.__dict__.setdefault("_remembered", [])
        if len(r) < cap and not getattr(self, "_revisiting", False):
            r.append(case)

    def violation(self, monitor, key, case, **info):
        """monitor: name of the monitor that fired; key: deterministic mechanism key
        (structure of the failure, never random values); case: the JSON-serialisable
        case that check_case() can re-execute; info: observed/expected etc."""
        k = (monitor, key)
        self.nviol[k] += 1
        if self.nviol[k] <= VIOL_CAP:
            w = {"monitor": monitor, "key": key, "case": case}
            w.update(info)
            if getattr(self, "shard_id", None):
                w["shard"] = self.shard_id
            self.viol.append(w)

    def setmin(self, name, value, witness=None):
        cur = self.extra.get(name)
        if cur is None or value < cur[0]:
            self.extra[name] = [value, witness]

    def addset(self, name, items, cap=100000):
        s = self.extra.setdefault(name, set())
        if len(s) < cap:
            s.update(items)

    # -- merging -----------------------------------------------------------
    def merge(self, o):
        self.evaluations += o.evaluations
        self.counters.update(o.counters)
        self.strata.update(o.strata)
        for w in o.viol:
            k = (w["monitor"], w["key"])
            if sum(1 for x in self.viol if (x["monitor"], x["key"]) == k) < VIOL_CAP:
                self.viol.append(w)
        self.nviol.update(o.nviol)
        for s in o.samples:
            self.sample(s)
        self.distinct |= o.distinct
        self.distinct_n += o.distinct_n
        for k, v in o.extra.items():
            if isinstance(v, set):
                self.extra.setdefault(k, set()).update(v)
            elif isinstance(v, list) and len(v) == 2 and not isinstance(v[0], (list, dict)):
                cur = self.extra.get(k)
                if cur is None or v[0] < cur[0]:
                    self.extra[k] = v
            elif isinstance(v, collections.Counter):
                self.extra.setdefault(k, collections.Counter()).update(v)
            else:
                self.extra[k] = v
        self.notes.extend(o.notes)


_DEVNULL_HANDLER = []
_THIRD_PARTY = r"(jsonschema|jsonschema_specifications|referencing|attr|attrs|rpds|icontract|asttokens|numpy|atheris|typing_extensions|six)(\..*)?$"
_OUR_FILTERS = []
_SAVED_DECIMAL = []
# 'subprocess:<interpreter flags>:<environment>': the shard runs in a fresh interpreter started with flags / an
# environment an application may legitimately run under (optimised byte code without asserts and docstrings, bytes
# warnings as errors, another hash seed, the C locale without UTF-8 mode)
_SUBPROCESS_PROFILES = ["subprocess:-O:", "subprocess:-OO:", "subprocess:-bb:", "subprocess::PYTHONHASHSEED=4242",
                        "subprocess::LANG=C,LC_ALL=C,PYTHONUTF8=0", "subprocess:-OO:PYTHONHASHSEED=77,LANG=C,LC_ALL=C"]
_DECIMAL_PROFILES = ["decimal:%s:%d" % (r, p) for r, p in zip(
    ("ROUND_DOWN", "ROUND_UP", "ROUND_FLOOR", "ROUND_HALF_DOWN", "ROUND_05UP", "ROUND_CEILING", "ROUND_HALF_UP", "ROUND_HALF_EVEN"),
    (28, 29, 34, 28, 60, 28, 31, 100))]
# (traps stay at their defaults: the properties quantify rounding modes and precisions only, and the unchanged CVSS4
# mixes floats and Decimals, so it cannot be constructed at all under a context that traps FloatOperation -- tried in
# session 3, seed C03-score-clamp-float-bounds-floatoperation-trap is kept as a record of that boundary)


def _set_ambient(profile):
    """Ambient configuration of the process a shard runs in (worker processes are reused, so it is set
    explicitly every time).  'debug-logging': root logger at DEBUG with a handler writing to os.devnull --
    what `logging.basicConfig(level=logging.DEBUG)` does in an application, minus the output."""
    import logging
    root = logging.getLogger()
    if not _DEVNULL_HANDLER:
        _DEVNULL_HANDLER.append(logging.StreamHandler(open(os.devnull, "w")))
    h = _DEVNULL_HANDLER[0]
    if profile == "debug-logging":
        if h not in root.handlers:
            root.addHandler(h)
        root.setLevel(logging.DEBUG)
    else:
        if h in root.handlers:
            root.removeHandler(h)
        root.setLevel(logging.WARNING)
    import warnings
    # (what `-W error::Warning:cvss...` / pytest's filterwarnings=error do; restricted to warnings attributed to the
    # library's modules so that the harness's own dependencies are not affected)
    # every warning raised WHILE A LIBRARY CALL IS RUNNING is an error, whoever it is attributed to (a library warning
    # issued with stacklevel=2 is attributed to the caller, i.e. to this harness): the filter is scoped to obs.call(),
    # the wrapper through which the monitors call the library, so that the harness's own dependencies are not affected
    from . import obs as _obs
    _obs.WARNINGS_AS_ERRORS = profile == "warnings-as-errors"
    # 'decimal:<rounding>:<prec>': the calling thread's ambient decimal context is what an application doing its own
    # money / measurement arithmetic may have set (C19 quantifies every rounding mode with at least the default
    # precision; traps and exponent limits stay at their defaults).  Restored by the next _set_ambient().
    import decimal
    if not _SAVED_DECIMAL:
        _SAVED_DECIMAL.append(decimal.getcontext().copy())
    if profile.startswith("decimal:"):
        parts = profile.split(":")
        ctx = decimal.Context(prec=int(parts[2]), rounding=parts[1])
        if len(parts) > 3 and hasattr(decimal, parts[3]):
            # a strictness switch an application may turn on for its own arithmetic (FloatOperation: mixing floats and
            # Decimals is an error); the unchanged library works under it
            ctx.traps[getattr(decimal, parts[3])] = True
        decimal.setcontext(ctx)
    else:
        cur = decimal.getcontext()
        if (cur.prec, cur.rounding, cur.traps) != (_SAVED_DECIMAL[0].prec, _SAVED_DECIMAL[0].rounding, _SAVED_DECIMAL[0].traps):
            decimal.setcontext(_SAVED_DECIMAL[0].copy())
    if hasattr(warnings, "_filters_mutated"):
        warnings._filters_mutated()


_TERMINAL_ENV = {"COLUMNS": "24", "LINES": "6", "NO_COLOR": "1", "TERM": "dumb"}


def _run_shard(mod, fname, shard, P, ambient="default"):
    _set_ambient(ambient)
    saved_env = None
    if ambient == "fresh-thread":
        # ... and, while at it, with the environment of a narrow, colourless terminal (presentation may follow it;
        # nothing any property speaks about may)
        saved_env = {k: os.environ.get(k) for k in _TERMINAL_ENV}
        os.environ.update(_TERMINAL_ENV)
    try:
        _run_shard_ambient(mod, fname, shard, P, ambient)
    finally:
        if saved_env is not None:
            for k, v in saved_env.items():
                if v is None:
                    os.environ.pop(k, None)
                else:
                    os.environ[k] = v


def _exercise_entry_points():
    """The library's OTHER entry points used first, the way a long-running application would have used them before
    it gets to what the shard does: an all-metrics interactive session per version, text extraction, Red Hat
    notation, the calculator with -j.  Results are not judged here (C16, C13, C12, C17 do that)."""
    try:
        from .bootstrap import lib
        from .spec import tables as T
        from .workloads import dialogue as DLG
        L = lib()
        for vt in ("4", "3.1", "2", "3.0"):
            ver = DLG.VER_OF[vt]
            vals = []
            for m in T.ORDER[ver]:
                for v in T.VALUES[ver][m]:
                    if v not in vals:
                        vals.append(v)
            DLG.run_dialogue(vt, True, (vals + [""]) * (len(T.ORDER[ver]) + 1), limit=4000)
        v2, v3 = "AV:A/AC:L/Au:N/C:P/I:P/A:C/E:POC/RL:TF/TD:M", "CVSS:3.1/AV:A/AC:L/PR:L/UI:R/S:C/C:H/I:L/A:N/E:P/RL:T/MAV:A"
        v4 = "CVSS:4.0/AV:A/AC:L/AT:N/PR:N/UI:N/VC:H/VI:L/VA:N/SC:N/SI:N/SA:N/E:P/CR:M/MAV:A/U:Amber"
        L.parser.parse_cvss_from_text("see %s and (%s)." % (v2, v3))
        for cls, v in ((L.CVSS2, v2), (L.CVSS3, v3), (L.CVSS4, v4)):
            o = cls(v)
            cls.from_rh_vector(o.rh_vector())
            o.as_json(sort=True, minimal=True)
    except Exception:
        pass


def _run_shard_ambient(mod, fname, shard, P, ambient):
    if ambient != "default":
        P.stratum("shards-run-with:" + ("ambient-decimal-context" if ambient.startswith("decimal:") else
                                        "other-interpreter-flags-or-environment" if ambient.startswith("subprocess:") else ambient))
        if ambient.startswith("decimal:") or ambient.startswith("subprocess:"):
            P.stratum("shards-run-with:" + ambient)
        if ambient.startswith("subprocess:"):
            P.stratum("shards-run-with:__debug__=%s,docstrings=%s,hashseed=%s,LANG=%s" % (
                __debug__, _shard_entry.__doc__ is not None or Part.__doc__ is not None, os.environ.get("PYTHONHASHSEED"), os.environ.get("LANG")))
        P.ambient = ambient
    if ambient == "debug-logging":
        _exercise_entry_points()
        P.stratum("shards-run-after:other-entry-points-were-used")
    try:
        if ambient == "fresh-thread":
            import threading
            err = []

            def body():
                try:
                    _run_shard_body(mod, fname, shard, P)
                except BaseException as e:  # noqa -- re-raised in the calling thread below
                    err.append(e)
            t = threading.Thread(target=body)
            t.start()
            t.join()
            if err:
                raise err[0]
        else:
            _run_shard_body(mod, fname, shard, P)
    finally:
        _set_ambient("default")


def _run_shard_body(mod, fname, shard, P):
    getattr(mod, fname)(P, *shard)
    P._revisiting = True
    for case in list(getattr(P, "_remembered", [])):
        P.stratum("early-case-judged-again-at-the-end-of-its-shard")
        mod.check_case(P, case)


def _subprocess_cmd(profile, tail):
    _, flags, envs = profile.split(":", 2)
    env = dict(os.environ)
    env["VMON_IN_SUBSHARD"] = profile
    for kv in [x for x in envs.split(",") if x]:
        k, _, v = kv.partition("=")
        env[k] = v
    return [sys.executable] + [f for f in flags.split(",") if f] + ["-B", "-m", "vmon.runner"] + tail, env


def _shard_in_subprocess(args):
    """Run the shard in a fresh interpreter with the profile's flags and environment; the Part comes back pickled
    through a file.  Anything that goes wrong with the transport is 'inconclusive', never a verdict."""
    import pickle
    import tempfile
    profile = args[4]
    d = tempfile.mkdtemp(prefix="vmon-subshard-")
    try:
        fin, fout = os.path.join(d, "in.pkl"), os.path.join(d, "out.pkl")
        with open(fin, "wb") as f:
            pickle.dump(args, f, 2)
        cmd, env = _subprocess_cmd(profile, ["--subshard", fin, fout])
        p = subprocess.run(cmd, cwd=VERIF, env=env, stdout=subprocess.PIPE, stderr=subprocess.STDOUT, timeout=3300)
        if p.returncode != 0 or not os.path.exists(fout):
            P = Part()
            P.notes.append("INCONCLUSIVE:shard %s%r under %s: interpreter exited %d: %s" % (
                args[1], tuple(args[2])[:3], profile, p.returncode, p.stdout.decode("utf-8", "replace")[-600:]))
            return P
        with open(fout, "rb") as f:
            return pickle.load(f)
    except Exception:
        P = Part()
        P.notes.append("INCONCLUSIVE:shard %s%r under %s: %s" % (args[1], tuple(args[2])[:3], profile, traceback.format_exc()[-600:]))
        return P
    finally:
        import shutil
        shutil.rmtree(d, ignore_errors=True)


def _subshard_main(fin, fout):
    import pickle
    with open(fin, "rb") as f:
        args = pickle.load(f)
    # the state a forked worker inherits from the check process: library imported (and on sys.path), nothing else
    bootstrap.lib()
    if args[3]:
        _apply_mutant(importlib.import_module(args[0]), args[3])
    P = _shard_entry(args)
    with open(fout, "wb") as f:
        pickle.dump(P, f, 2)
    return 0


def _shard_entry(args):
    modname, fname, shard, mutant = args[:4]
    ambient = args[4] if len(args) > 4 else "default"
    if ambient.startswith("subprocess:") and os.environ.get("VMON_IN_SUBSHARD") != ambient:
        return _shard_in_subprocess(args)
    mod = importlib.import_module(modname)
    # (an in-memory mutant applied in the parent is inherited through fork)
    P = Part()
    # identity of the shard, kept in every witness: a violation that needs the shard's HISTORY (what was
    # constructed before) is replayed by re-running the shard when its single case does not reproduce alone
    try:
        sid = json.dumps({"fname": fname, "args": list(shard), "ambient": ambient})
        P.shard_id = json.loads(sid) if len(sid) < 1500 else None
    except Exception:
        P.shard_id = None
    try:
        _run_shard(mod, fname, shard, P, ambient)
    except Inconclusive as e:
        P.notes.append("INCONCLUSIVE:" + str(e))
    except Exception:
        # a crash of the HARNESS in one shard must not throw away what the shard's monitors
        # already recorded (violations take precedence over 'inconclusive' in the verdict)
        P.notes.append("INCONCLUSIVE:harness error in shard %s%r: %s" % (fname, shard[:3], traceback.format_exc()[-600:]))
    return P


def _apply_mutant(mod, name):
    muts = getattr(mod, "MUTANTS", {})
    if name not in muts:
        raise SystemExit("unknown mutant %r for %s (have: %s)" % (name, mod.__name__, sorted(muts)))
    muts[name](bootstrap.lib())


class Run(object):
    def __init__(self, pid, tier, seed, mutant=None):
        self.pid = pid
        self.tier = tier
        self.seed = seed
        self.mutant = mutant
        self.rng = random.Random("%s-%s" % (pid, seed))
        self.P = Part()
        self.t0 = time.time()
        self.required = []  # counters that must be > 0 for a 'held' verdict
        self.inconclusive = []
        self.rule = ""
        self.exhaustive = False
        self.assumptions = []
        self.coverage_extra = {}
        self.lib = bootstrap.lib()
        self.mod = None

    @property
    def quick(self):
        return self.tier == "quick"

    def pick(self, q, t):
        return q if self.tier == "quick" else t

    def sub_rng(self, tag):
        return random.Random("%s-%s-%s" % (self.pid, self.seed, tag))

    def require(self, *counters):
        self.required.extend(counters)

    def pmap(self, fname, shards, workers=None, module=None, fork=False):
        """Run mod.<fname>(P, *shard) for every shard in worker processes (fork) and
        merge the parts.  A dead worker raises (BrokenProcessPool) -> inconclusive."""
        shards = list(shards)
        if not shards:
            return
        workers = min(workers or MAXW, len(shards))
        # every third shard runs the way an application with DEBUG logging enabled would run the library
        # ... and every third one in a freshly started thread (not the thread that imported the package; own default
        # decimal context, own thread-local storage)
        # ... and every fourth one with warnings issued from the library's own modules turned into errors
        # ... and every fifth one under an ambient decimal context of the caller's (another rounding mode, a precision
        # of at least the default one)
        # ... and every eleventh one in a fresh interpreter started with other flags / another environment
        def _profile(i):
            if i % 11 == 10:
                return _SUBPROCESS_PROFILES[(i // 11 + self.seed) % len(_SUBPROCESS_PROFILES)]
            if i % 5 == 4:
                return _DECIMAL_PROFILES[(i // 5) % len(_DECIMAL_PROFILES)]
            return ("default", "debug-logging", "fresh-thread", "warnings-as-errors")[i % 5]
        args = [(module or self.mod.__name__, fname, tuple(s), self.mutant, _profile(i)) for i, s in enumerate(shards)]
        if workers <= 1 and not fork:
            for a in args:
                self.P.merge(_shard_entry(a))
            return
        ctx = multiprocessing.get_context("fork")
        try:
            with concurrent.futures.ProcessPoolExecutor(max_workers=max(1, workers), mp_context=ctx) as ex:
                for part in ex.map(_shard_entry, args):
                    self.P.merge(part)
        except concurrent.futures.process.BrokenProcessPool as e:
            self.inconclusive.append("worker process died: %r" % (e,))


# ---------------------------------------------------------------------------
def load_known(pid):
    path = os.path.join(VERIF, "known_findings.json")
    try:
        with open(path) as f:
            data = json.load(f)
    except IOError:
        return {}
    out = {}
    for e in data.get("findings", []):
        if e.get("property") == pid and e.get("status") == "open":
            out[e["key"]] = e
    return out


def jsonable(x):
    if isinstance(x, dict):
        return {str(k): jsonable(v) for k, v in x.items()}
    if isinstance(x, (list, tuple)):
        return [jsonable(v) for v in x]
    if isinstance(x, (set, frozenset)):
        return sorted((jsonable(v) for v in x), key=repr)
    if isinstance(x, (str, int, bool)) or x is None:
        return x
    if isinstance(x, float):
        if x != x or x in (float("inf"), float("-inf")):
            return repr(x)
        return x
    if isinstance(x, bytes):
        return x.decode("latin-1")
    return repr(x)


def finish(R, write_evidence=True, replay_mode=False):
    P = R.P
    known = load_known(R.pid)
    wall = time.time() - R.t0
    for n in P.notes:
        if n.startswith("INCONCLUSIVE:"):
            R.inconclusive.append(n[len("INCONCLUSIVE:"):])
    # classify
    known_hits = collections.Counter()
    new = []
    for (monitor, key), n in sorted(P.nviol.items()):
        if key in known:
            known_hits[key] += n
        else:
            new.append((monitor, key, n))
    for c in R.required:
        if P.counters.get(c, 0) == 0 and not replay_mode:
            R.inconclusive.append("deciding monitor %r was never evaluated" % c)
    # print summary of what the monitors observed
    print("== %s tier=%s seed=%s wall=%.1fs evaluations=%d distinct=%d" % (
        R.pid, R.tier, R.seed, wall, P.evaluations, len(P.distinct) + P.distinct_n))
    for k in sorted(P.counters):
        print("   monitor %-38s %d" % (k, P.counters[k]))
    for k in sorted(P.strata):
        print("   stratum %-38s %d" % (k, P.strata[k]))
    for k in sorted(P.extra):
        v = P.extra[k]
        if isinstance(v, set):
            print("   observed %-37s %d distinct" % (k, len(v)))
        elif isinstance(v, collections.Counter):
            print("   observed %-37s %s" % (k, dict(v.most_common(12))))
        else:
            print("   observed %-37s %s" % (k, json.dumps(jsonable(v))[:200]))
    for key, n in sorted(known_hits.items()):
        print("KNOWN-FINDING: property=%s %s [key=%s, %d cases]" % (R.pid, known[key]["what"], key, n))
    replay_paths = []
    if new:
        os.makedirs(os.path.join(VERIF, "replays"), exist_ok=True)
        seen = collections.Counter()
        idx = 0
        for w in P.viol:
            k = (w["monitor"], w["key"])
            if w["key"] in known:
                continue
            seen[k] += 1
            if seen[k] > 3:
                continue
            idx += 1
            path = os.path.join("replays", "%s-%s-%s-%d.json" % (R.pid, R.tier, R.seed, idx))
            doc = {"property": R.pid, "tier": R.tier, "seed": R.seed, "python": sys.version.split()[0],
                   "repo": bootstrap.REPO, "mutant": R.mutant}
            doc.update(jsonable(w))
            with open(os.path.join(VERIF, path), "w") as f:
                json.dump(doc, f, indent=1, sort_keys=True)
            replay_paths.append(path)
            print("VIOLATION property=%s replay=%s" % (R.pid, path))
            print("   monitor=%s key=%s count=%d" % (w["monitor"], w["key"], P.nviol[k]))
            for kk in sorted(w):
                if kk not in ("monitor", "key"):
                    print("   %s: %s" % (kk, json.dumps(jsonable(w[kk]))[:400]))
    status = "violated" if new else ("inconclusive" if R.inconclusive else "held")
    for r in R.inconclusive:
        print("INCONCLUSIVE property=%s %s" % (R.pid, r))
    if write_evidence and not replay_mode and R.tier in ("quick", "thorough"):
        cov = {
            "evaluations": int(P.evaluations),
            "distinct_nontrivial": int(len(P.distinct) + P.distinct_n),
            "rule": R.rule,
            "samples": jsonable(P.samples),
            "exhaustive": bool(R.exhaustive),
            "monitor_evaluations": dict(P.counters),
            "strata": dict(P.strata),
            "verdict": status,
            "known_findings_seen": dict(known_hits),
            "inconclusive_reasons": list(R.inconclusive),
        }
        for k, v in P.extra.items():
            if isinstance(v, set):
                cov["observed_" + k] = {"distinct": len(v), "values": jsonable(sorted(v, key=repr)[:120])}
            else:
                cov["observed_" + k] = jsonable(v)
        cov.update(jsonable(R.coverage_extra))
        ev = {
            "property_id": R.pid,
            "tier": R.tier,
            "seed": int(R.seed),
            "level": "exploration",
            "coverage": cov,
            "assumptions": R.assumptions,
            "wall_s": round(wall, 2),
            "violations": int(sum(n for _, _, n in new)),
            "repo": bootstrap.REPO,
            "python": sys.version.split()[0],
        }
        os.makedirs(os.path.join(VERIF, "evidence"), exist_ok=True)
        tmp = os.path.join(VERIF, "evidence", ".%s.%d.tmp" % (R.pid, os.getpid()))
        with open(tmp, "w") as f:
            json.dump(ev, f, indent=1, sort_keys=True)
            f.write("\n")
        os.replace(tmp, os.path.join(VERIF, "evidence", "%s.json" % R.pid))
    print("== %s verdict: %s" % (R.pid, status))
    return {"held": 0, "violated": 1, "inconclusive": 2}[status]


def _watchdog(signum, frame):
    raise Inconclusive("wall-clock watchdog fired")


def run_check(pid, tier, mutant=None, write_evidence=True):
    seed = int(os.environ.get("VERIF_SEED", "0"))
    mod = importlib.import_module("vmon.monitors." + pid)
    R = Run(pid, tier, seed, mutant)
    R.mod = mod
    if mutant:
        _apply_mutant(mod, mutant)
    limit = int(os.environ.get("VERIF_WATCHDOG_S", "0")) or (3600 if tier == "quick" else 6 * 3600)
    signal.signal(signal.SIGALRM, _watchdog)
    signal.alarm(limit)
    try:
        from .spec import selfcheck

        selfcheck.run(R, getattr(mod, "ORACLES", ()))
        mod.run(R)
    except Inconclusive as e:
        R.inconclusive.append(str(e))
    finally:
        signal.alarm(0)
    return finish(R, write_evidence=write_evidence and not mutant)


def run_replay(pid, path):
    with open(path) as f:
        w = json.load(f)
    mod = importlib.import_module("vmon.monitors." + pid)
    R = Run(pid, "replay", int(w.get("seed", 0)))
    R.mod = mod
    print("replaying %s: monitor=%s key=%s" % (path, w.get("monitor"), w.get("key")))
    amb = (w.get("shard") or {}).get("ambient", "default")
    if amb.startswith("subprocess:") and os.environ.get("VMON_IN_SUBSHARD") != amb:
        # the witness was observed in an interpreter started with other flags / another environment: replay it there
        cmd, env = _subprocess_cmd(amb, [pid, "--replay", path])
        print("re-running the replay under %s" % amb)
        sys.stdout.flush()
        return subprocess.run(cmd, cwd=VERIF, env=env).returncode
    _set_ambient((w.get("shard") or {}).get("ambient", "default"))
    try:
        if hasattr(mod, "replay"):
            mod.replay(R, w)
        else:
            mod.check_case(R.P, w["case"])
    finally:
        _set_ambient("default")
    if not R.P.viol and w.get("shard"):
        # the case alone does not reproduce: the violation may need what the shard did before it
        print("the case alone does not reproduce; re-running its shard %s%r" % (w["shard"]["fname"], tuple(w["shard"]["args"])[:4]))
        P2 = Part()
        try:
            _run_shard(mod, w["shard"]["fname"], w["shard"]["args"], P2, w["shard"].get("ambient", "default"))
        except Exception:
            R.inconclusive.append("shard re-run failed: " + traceback.format_exc()[-400:])
        P2.viol = [v for v in P2.viol if v.get("key") == w.get("key")]
        for k in list(P2.nviol):
            if k[1] != w.get("key"):
                del P2.nviol[k]
        R.P.merge(P2)
    return finish(R, write_evidence=False, replay_mode=True)


def run_selftest(pid):
    """Every in-memory mutant must make the QUICK tier fire (exit 1); the unchanged
    tree is not run here.  Mutants run in fresh subprocesses through the same entry
    point, so what is validated is the whole pipeline."""
    mod = importlib.import_module("vmon.monitors." + pid)
    muts = sorted(getattr(mod, "MUTANTS", {}))
    if not muts:
        print("no in-memory mutants registered for", pid)
        return 0
    env = dict(os.environ)
    missed = []

    def one(name):
        p = subprocess.run([sys.executable, "-B", "-m", "vmon.runner", pid, "quick", "--mutant", name, "--no-evidence"],
                           cwd=VERIF, env=env, stdout=subprocess.PIPE, stderr=subprocess.STDOUT, universal_newlines=True)
        return name, p.returncode, p.stdout

    par = max(1, min(4, len(muts)))
    with concurrent.futures.ThreadPoolExecutor(max_workers=par) as ex:
        for name, rc, out in ex.map(one, muts):
            fired = [l for l in out.splitlines() if l.startswith("   monitor=")]
            keys = sorted(set(l.split("key=")[1].split(" count=")[0] for l in fired))
            print("mutant %-34s exit=%d %s" % (name, rc, "CAUGHT " + ",".join(keys)[:150] if rc == 1 else "MISSED"))
            if rc != 1:
                missed.append(name)
                print(out[-1500:])
    print("selftest %s: %d/%d mutants caught" % (pid, len(muts) - len(missed), len(muts)))
    return 1 if missed else 0


def main(argv):
    if len(argv) < 2:
        print(__doc__)
        return 2
    pid = argv[0]
    bootstrap.ensure_deps()
    if pid == "--subshard":
        return _subshard_main(argv[1], argv[2])
    if argv[1] == "--replay":
        return run_replay(pid, argv[2])
    if argv[1] == "selftest":
        return run_selftest(pid)
    tier = argv[1]
    if tier not in ("quick", "thorough"):
        print(__doc__)
        return 2
    mutant = None
    if "--mutant" in argv:
        mutant = argv[argv.index("--mutant") + 1]
    try:
        return run_check(pid, tier, mutant, write_evidence="--no-evidence" not in argv)
    except Exception:
        traceback.print_exc()
        print("INCONCLUSIVE property=%s harness error (see traceback)" % pid)
        return 2


if __name__ == "__main__":
    sys.exit(main(sys.argv[1:]))
