"""Sequential model of the interactive builder (property C16), independent of cvss.*.

The property does not fix the order of the questions, so the model takes the order from
a witness (the returned vector, or the order witnessed by a probing run) and checks
everything else: metric set, one field per metric, reads = accepted + rejected answers,
each field's value = the canonical spelling of the first LEGAL answer given to that
question (case-insensitive match; empty = Not Defined where legal), no legal answer
rejected, no illegal answer accepted.

Answers with surrounding whitespace are outside the property's wording: the model allows
them to be either rejected or accepted as their stripped form (both paths explored).
"""
from . import tables as T


def canonical(ver, metric, answer):
    """Canonical value selected by `answer` for `metric`, or None if illegal.
    Exact (unpadded) answers only."""
    vals = T.VALUES[ver][metric]
    if answer == "":
        return T.ND[ver] if T.ND[ver] in vals else None
    up = answer.upper()
    for v in vals:
        if v.upper() == up:
            return v
    return None


def simulate(ver, order, answers):
    """All possible (fields, reads) outcomes of asking `order` with `answers`;
    fields is None when the answers run out (EOF).  Set of tuples."""
    outs = set()

    def go(qi, ai, fields):
        if qi == len(order):
            outs.add((tuple(fields), ai))
            return
        m = order[qi]
        while True:
            if ai >= len(answers):
                outs.add((None, ai))  # EOF (ai answers consumed, one further read hits EOF)
                return
            a = answers[ai]
            ai += 1
            st = a.strip()
            if st == a:
                c = canonical(ver, m, a)
                if c is not None:
                    go(qi + 1, ai, fields + [(m, c)])
                    return
                continue  # rejected, ask again
            # padded answer: both behaviours allowed
            c = canonical(ver, m, st)
            if c is not None:
                go(qi + 1, ai, fields + [(m, c)])
            # ... or rejected: continue loop

    go(0, 0, [])
    return outs


def parse_return(ver, prefix, ret):
    """[(metric, value)] of the returned string or None if it has no such shape."""
    if not isinstance(ret, str):
        return None
    if ver != "2":
        if not ret.startswith(prefix):
            return None
        body = ret[len(prefix):]
    else:
        body = ret
    out = []
    for f in body.split("/"):
        p = f.split(":")
        if len(p) != 2:
            return None
        out.append((p[0], p[1]))
    return out
