"""Exact-arithmetic reference model of the CVSS v2 equations (CVSS v2 complete guide,
section 3.2).  Independent of cvss.*: own weights, fractions.Fraction arithmetic."""
from fractions import Fraction as F
import math

W = {
    "AV": {"L": "0.395", "A": "0.646", "N": "1.0"},
    "AC": {"H": "0.35", "M": "0.61", "L": "0.71"},
    "Au": {"M": "0.45", "S": "0.56", "N": "0.704"},
    "C": {"N": "0.0", "P": "0.275", "C": "0.660"},
    "I": {"N": "0.0", "P": "0.275", "C": "0.660"},
    "A": {"N": "0.0", "P": "0.275", "C": "0.660"},
    "E": {"U": "0.85", "POC": "0.9", "F": "0.95", "H": "1.00", "ND": "1.00"},
    "RL": {"OF": "0.87", "TF": "0.90", "W": "0.95", "U": "1.00", "ND": "1.00"},
    "RC": {"UC": "0.90", "UR": "0.95", "C": "1.00", "ND": "1.00"},
    "CDP": {"N": "0", "L": "0.1", "LM": "0.3", "MH": "0.4", "H": "0.5", "ND": "0"},
    "TD": {"N": "0", "L": "0.25", "M": "0.75", "H": "1.00", "ND": "1.00"},
    "CR": {"L": "0.5", "M": "1.0", "H": "1.51", "ND": "1.0"},
    "IR": {"L": "0.5", "M": "1.0", "H": "1.51", "ND": "1.0"},
    "AR": {"L": "0.5", "M": "1.0", "H": "1.51", "ND": "1.0"},
}
W = {m: {v: F(w) for v, w in d.items()} for m, d in W.items()}
TEMPORAL = ["E", "RL", "RC"]
ENVIRONMENTAL = ["CDP", "TD", "CR", "IR", "AR"]


def half_up(x, neg_mode="away", flag=None):
    """round_to_1_decimal.  For a negative exact tie the guide is silent: neg_mode
    'away' rounds away from zero, 'up' toward +infinity; flag (a list) records ties."""
    y = x * 10
    fl = math.floor(y)
    if y - fl == F(1, 2) and x < 0:
        if flag is not None:
            flag.append(x)
        return F(fl, 10) if neg_mode == "away" else F(fl + 1, 10)
    if y - fl >= F(1, 2):
        fl += 1
    return F(fl, 10)


def scores(m, neg_mode="away", flag=None, variant=None):
    """m: metrics as written (dict; optional metrics may be absent or 'ND').
    Returns (base, temporal|None, environmental|None) as Fractions.
    variant: named deliberate deviations used to count discriminating cases."""
    g = lambda k: W[k][m.get(k, "ND")]
    rnd = lambda x: half_up(x, neg_mode, flag)
    if variant == "half_even":
        def rnd(x):  # noqa
            y = x * 10
            fl = math.floor(y)
            d = y - fl
            if d > F(1, 2) or (d == F(1, 2) and fl % 2 == 1):
                fl += 1
            return F(fl, 10)
    c1176 = F("1.175") if variant == "c1176" else F("1.176")
    c1041 = F("10.4") if variant == "c1041" else F("10.41")
    req = (lambda k: F("1.5") if (variant == "c151" and m.get(k, "ND") == "H") else g(k))

    def base(adjusted):
        if adjusted:
            imp = c1041 * (1 - (1 - g("C") * req("CR")) * (1 - g("I") * req("IR")) * (1 - g("A") * req("AR")))
            if variant != "nocap":
                imp = min(F(10), imp)
        else:
            imp = c1041 * (1 - (1 - g("C")) * (1 - g("I")) * (1 - g("A")))
        ex = 20 * g("AV") * g("AC") * g("Au")
        f = 0 if imp == 0 else c1176
        return rnd((F("0.6") * imp + F("0.4") * ex - F("1.5")) * f)

    def temp(b):
        return rnd(b * g("E") * g("RL") * g("RC"))

    b = max(F(0), base(False))
    t_def = any(m.get(k, "ND") != "ND" for k in TEMPORAL)
    e_def = any(m.get(k, "ND") != "ND" for k in ENVIRONMENTAL)
    t = max(F(0), temp(b)) if t_def else None
    if not e_def:
        e = None
    else:
        if variant == "env_unadjusted":
            at = temp(b)
        else:
            at = temp(base(True))
        e = max(F(0), rnd((at + (10 - at) * g("CDP")) * g("TD")))
    return b, t, e


VARIANTS = ["half_even", "c1176", "c1041", "c151", "nocap", "env_unadjusted"]
