"""Exact-arithmetic reference model of the CVSS v3.0 / v3.1 equations (specification
section 7 / 7.1-7.4).  Independent of cvss.*."""
from fractions import Fraction as F
import math

W = {
    "AV": {"N": "0.85", "A": "0.62", "L": "0.55", "P": "0.2"},
    "AC": {"L": "0.77", "H": "0.44"},
    "PRU": {"N": "0.85", "L": "0.62", "H": "0.27"},
    "PRC": {"N": "0.85", "L": "0.68", "H": "0.5"},
    "UI": {"N": "0.85", "R": "0.62"},
    "CIA": {"H": "0.56", "L": "0.22", "N": "0"},
    "E": {"X": "1", "H": "1", "F": "0.97", "P": "0.94", "U": "0.91"},
    "RL": {"X": "1", "U": "1", "W": "0.97", "T": "0.96", "O": "0.95"},
    "RC": {"X": "1", "C": "1", "R": "0.96", "U": "0.92"},
    "REQ": {"X": "1", "H": "1.5", "M": "1", "L": "0.5"},
}
W = {m: {v: F(w) for v, w in d.items()} for m, d in W.items()}


def ceil1(x):
    """Roundup: smallest number with one decimal >= x (exact)."""
    return F(math.ceil(x * 10), 10)


def half_up1(x):
    return F(math.floor(x * 10 + F(1, 2)), 10)


def scores(minor, m, variant=None):
    """minor: 0 or 1; m: metrics as written (mandatory present; optional absent or 'X').
    Returns (base, temporal, environmental) as Fractions."""
    rnd = half_up1 if variant == "half_up" else ceil1
    S = m["S"]

    def impact(iss, scope, modified):
        if scope == "U":
            return F("6.42") * iss
        use31 = modified and minor == 1
        if variant == "swap3031" and modified:
            use31 = not use31
        if use31:
            return F("7.52") * (iss - F("0.029")) - F("3.25") * (iss * F("0.9731") - F("0.02")) ** 13
        return F("7.52") * (iss - F("0.029")) - F("3.25") * (iss - F("0.02")) ** 15

    cia = W["CIA"]
    iss = 1 - (1 - cia[m["C"]]) * (1 - cia[m["I"]]) * (1 - cia[m["A"]])
    prs = S
    if variant == "pr_other_scope":
        prs = "C" if S == "U" else "U"
    ex = F("8.22") * W["AV"][m["AV"]] * W["AC"][m["AC"]] * W["PR" + prs][m["PR"]] * W["UI"][m["UI"]]
    i = impact(iss, S, False)
    if i <= 0:
        b = F(0)
    elif S == "U":
        b = rnd(min(i + ex, F(10)))
    else:
        b = rnd(min(F("1.08") * (i + ex), F(10)))
    tm = W["E"][m.get("E", "X")] * W["RL"][m.get("RL", "X")] * W["RC"][m.get("RC", "X")]
    t = rnd(b * tm)

    def eff(k):
        v = m.get("M" + k, "X")
        if variant == "ignore_modified":
            return m[k]
        return m[k] if v == "X" else v

    MS = eff("S")
    req = lambda k: W["REQ"][m.get(k, "X")]
    miss = 1 - (1 - cia[eff("C")] * req("CR")) * (1 - cia[eff("I")] * req("IR")) * (1 - cia[eff("A")] * req("AR"))
    capped = miss > F("0.915")
    if variant != "nocap":
        miss = min(miss, F("0.915"))
    mprs = MS
    if variant == "mpr_base_scope":
        mprs = S
    mex = F("8.22") * W["AV"][eff("AV")] * W["AC"][eff("AC")] * W["PR" + mprs][eff("PR")] * W["UI"][eff("UI")]
    mi = impact(miss, MS, True)
    if mi <= 0:
        e = F(0)
    elif MS == "U":
        e = rnd(rnd(min(mi + mex, F(10))) * tm)
    else:
        e = rnd(rnd(min(F("1.08") * (mi + mex), F(10))) * tm)
    if variant == "env_no_temporal":
        if mi <= 0:
            e = F(0)
        elif MS == "U":
            e = rnd(min(mi + mex, F(10)))
        else:
            e = rnd(min(F("1.08") * (mi + mex), F(10)))
    return b, t, e


VARIANTS = ["half_up", "swap3031", "pr_other_scope", "mpr_base_scope", "nocap", "ignore_modified", "env_no_temporal"]
