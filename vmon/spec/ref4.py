"""Exact-arithmetic reference model of the CVSS v4.0 scoring algorithm (specification
section 8.2 and the EQ tables 24-29).  Independent of cvss.*.

Everything except the 270 macrovector scores is derived here from first principles: the
six EQ predicates are typed in from tables 24-29, and the highest-severity vectors and
the depth of every EQ level are computed by enumerating the level's members (highest
severity = Pareto-most-severe members; depth = spread of severity sums + 1).  The lookup
table is pinned data (lookup4.json).
"""
from fractions import Fraction as F
import hashlib
import itertools
import json
import math
import os

HERE = os.path.dirname(os.path.abspath(__file__))

# severity level of each value: 0 = most severe (specification 8.2, "severity distance")
LV = {
    "AV": {"N": 0, "A": 1, "L": 2, "P": 3}, "PR": {"N": 0, "L": 1, "H": 2}, "UI": {"N": 0, "P": 1, "A": 2},
    "AC": {"L": 0, "H": 1}, "AT": {"N": 0, "P": 1},
    "VC": {"H": 0, "L": 1, "N": 2}, "VI": {"H": 0, "L": 1, "N": 2}, "VA": {"H": 0, "L": 1, "N": 2},
    "SC": {"H": 1, "L": 2, "N": 3}, "SI": {"S": 0, "H": 1, "L": 2, "N": 3}, "SA": {"S": 0, "H": 1, "L": 2, "N": 3},
    "CR": {"H": 0, "M": 1, "L": 2}, "IR": {"H": 0, "M": 1, "L": 2}, "AR": {"H": 0, "M": 1, "L": 2},
}
EFFECTIVE_KEYS = ["AV", "PR", "UI", "AC", "AT", "VC", "VI", "VA", "SC", "SI", "SA", "CR", "IR", "AR", "E"]


def eq1(v):
    AV, PR, UI = v["AV"], v["PR"], v["UI"]
    if AV == "N" and PR == "N" and UI == "N":
        return 0
    if (AV == "N" or PR == "N" or UI == "N") and AV != "P":
        return 1
    return 2


def eq2(v):
    return 0 if (v["AC"] == "L" and v["AT"] == "N") else 1


def eq3(v):
    if v["VC"] == "H" and v["VI"] == "H":
        return 0
    if v["VC"] == "H" or v["VI"] == "H" or v["VA"] == "H":
        return 1
    return 2


def eq4(v):
    if v["SI"] == "S" or v["SA"] == "S":
        return 0
    if v["SC"] == "H" or v["SI"] == "H" or v["SA"] == "H":
        return 1
    return 2


def eq5(v):
    return {"A": 0, "P": 1, "U": 2}[v["E"]]


def eq6(v):
    if (v["CR"] == "H" and v["VC"] == "H") or (v["IR"] == "H" and v["VI"] == "H") or (v["AR"] == "H" and v["VA"] == "H"):
        return 0
    return 1


def macrovector(v):
    return "%d%d%d%d%d%d" % (eq1(v), eq2(v), eq3(v), eq4(v), eq5(v), eq6(v))


GROUPS = {
    "eq1": (("AV", "PR", "UI"), lambda v: (eq1(v),)),
    "eq2": (("AC", "AT"), lambda v: (eq2(v),)),
    "eq36": (("VC", "VI", "VA", "CR", "IR", "AR"), lambda v: (eq3(v), eq6(v))),
    "eq4": (("SC", "SI", "SA"), lambda v: (eq4(v),)),
}


def _derive():
    levels = {}
    problems = []
    members = {}
    for g, (ms, fn) in GROUPS.items():
        sets = {}
        for combo in itertools.product(*[list(LV[m]) for m in ms]):
            v = dict(zip(ms, combo))
            sets.setdefault(fn(v), []).append(tuple(LV[m][v[m]] for m in ms))
        info = {}
        for lvl, vecs in sets.items():
            front = [a for a in vecs if not any(b != a and all(x <= y for x, y in zip(b, a)) for b in vecs)]
            if len({sum(a) for a in front}) != 1:
                problems.append("highest-severity vectors of %s%s have unequal severity sums" % (g, lvl))
            depth = max(sum(a) for a in vecs) - min(sum(a) for a in vecs) + 1
            info[lvl] = (front, depth)
            members.setdefault(g, {})[lvl] = vecs
        levels[g] = info
    return levels, problems, members


LEVELS, DERIVE_PROBLEMS, MEMBERS = _derive()


def values_of(g, levels_tuple):
    """value dict of a member of group g given as a tuple of severity levels."""
    ms = GROUPS[g][0]
    out = {}
    for m, lv in zip(ms, levels_tuple):
        out[m] = [val for val, l in LV[m].items() if l == lv][0]
    return out


def load_lookup():
    with open(os.path.join(HERE, "lookup4.json")) as f:
        doc = json.load(f)
    tab = doc["table"]
    sha = hashlib.sha256(json.dumps(tab, sort_keys=True).encode()).hexdigest()
    if sha != doc["sha256_of_sorted_table"]:
        raise RuntimeError("lookup4.json does not match its recorded sha256")
    return {k: F(v) for k, v in tab.items()}


LOOKUP = load_lookup()


def effective(m):
    """m: metrics as written (dict; optional metrics absent or 'X') -> the 15 effective
    values that enter scoring."""
    e = {}
    for k in ("AV", "PR", "UI", "AC", "AT", "VC", "VI", "VA", "SC", "SI", "SA"):
        mv = m.get("M" + k, "X")
        e[k] = m[k] if mv == "X" else mv
    for k in ("CR", "IR", "AR"):
        e[k] = "H" if m.get(k, "X") == "X" else m[k]
    e["E"] = "A" if m.get("E", "X") == "X" else m["E"]
    return e


def half_up1(x):
    return F(math.floor(x * 10 + F(1, 2)), 10)


def score(v, lookup=None, variant=None, detail=None):
    """v: effective values (see EFFECTIVE_KEYS).  Exact Fraction with one decimal.
    detail: optional dict receiving the pre-rounding value and the macrovector."""
    lookup = LOOKUP if lookup is None else lookup
    if all(v[k] == "N" for k in ("VC", "VI", "VA", "SC", "SI", "SA")):
        if detail is not None:
            detail["zero"] = True
        return F(0)
    q = [eq1(v), eq2(v), eq3(v), eq4(v), eq5(v), eq6(v)]
    key = lambda qq: "".join(map(str, qq))
    val = lookup[key(q)]

    def low(idx):
        r = list(q)
        for i in idx:
            r[i] += 1
        return lookup.get(key(r))

    lows = {"eq1": low([0]), "eq2": low([1]), "eq4": low([3]), "eq5": low([4])}
    e3, e6 = q[2], q[5]
    if e3 == 0 and e6 == 0:
        cands = [x for x in (low([5]), low([2])) if x is not None]
        if variant == "eq36_min":
            l36 = min(cands) if cands else None
        else:
            l36 = max(cands) if cands else None
    elif e3 == 1 and e6 == 0:
        l36 = low([2]) if variant == "eq36_wrong10" else low([5])
    elif e6 == 1 and e3 in (0, 1):
        l36 = low([2])
    else:
        l36 = low([2, 5])
    lows["eq36"] = l36
    total = F(0)
    n = 0
    for g, (ms, fn) in GROUPS.items():
        if lows[g] is None:
            continue
        gap = val - lows[g]
        n += 1
        front, depth = LEVELS[g][fn(v)]
        if variant == "depth_plus1" and g == "eq36":
            depth += 1
        mine = tuple(LV[m][v[m]] for m in ms)
        ds = {sum(mine) - sum(f) for f in front if all(x <= y for x, y in zip(f, mine))}
        if len(ds) != 1:
            raise AssertionError("ambiguous severity distance %s %s %s" % (g, v, ds))
        total += gap * F(ds.pop(), depth)
    if lows["eq5"] is not None:
        n += 1
    if n:
        val = val - total / n
    val = max(F(0), min(F(10), val))
    if detail is not None:
        detail["pre"] = val
        detail["mv"] = key(q)
        detail["n_lower"] = n
    if variant == "floor":
        return F(math.floor(val * 10), 10)
    if variant == "half_even":
        y = val * 10
        fl = math.floor(y)
        d = y - fl
        if d > F(1, 2) or (d == F(1, 2) and fl % 2 == 1):
            fl += 1
        return F(fl, 10)
    return half_up1(val)


def score_written(m, variant=None, detail=None):
    """Score from metrics as written.  Variants that alter the effective-value rules."""
    if variant == "req_default_M":
        e = effective(m)
        for k in ("CR", "IR", "AR"):
            if m.get(k, "X") == "X":
                e[k] = "M"
        return score(e, detail=detail)
    if variant == "E_default_U":
        e = effective(m)
        if m.get("E", "X") == "X":
            e["E"] = "U"
        return score(e, detail=detail)
    if variant == "ignore_modified":
        mm = {k: val for k, val in m.items() if not (k.startswith("M") and k[1:] in LV)}
        return score(effective(mm), detail=detail)
    return score(effective(m), variant=variant, detail=detail)


VARIANTS = ["eq36_min", "eq36_wrong10", "depth_plus1", "floor", "half_even", "req_default_M", "E_default_U",
            "ignore_modified"]


def selfcheck_table():
    """Structural checks of the pinned table: 270 entries; monotone along every EQ axis;
    gaps to next-lower macrovectors non-negative (so 'available distance' is never
    negative and the reference needs no rule for that case)."""
    problems = list(DERIVE_PROBLEMS)
    if len(LOOKUP) != 270:
        problems.append("lookup table has %d entries" % len(LOOKUP))
    for k, val in LOOKUP.items():
        for i in range(6):
            r = list(map(int, k))
            r[i] += 1
            kk = "".join(map(str, r))
            if kk in LOOKUP and LOOKUP[kk] > val:
                problems.append("lookup not monotone: %s=%s < %s=%s" % (k, val, kk, LOOKUP[kk]))
    return problems
