"""Who monitors the monitor: before an oracle judges anything it is itself checked
against the pinned official calculator vectors and for internal consistency.  A failure
here means the ORACLE is wrong: the run stops as inconclusive, never as a violation."""
import ast
import os

from . import tables

HERE = os.path.dirname(os.path.abspath(__file__))


def official(name):
    """Yield (vector, expected tuple) from a pinned official vector file.  Format:
    '<vector> - (<b>, <t>, <e>)' or '<vector> - <score>'."""
    with open(os.path.join(HERE, "official", name)) as f:
        for line in f:
            line = line.strip()
            if not line:
                continue
            vec, exp = line.rsplit(" - ", 1)
            val = ast.literal_eval(exp)
            if not isinstance(val, tuple):
                val = (val,)
            yield vec, val


def _eq(fr, x):
    if fr is None or x is None:
        return fr is None and x is None
    from fractions import Fraction as F
    return fr == F(str(abs(x) if x == 0 else x))


def check_ref2():
    from . import ref2
    n = bad = 0
    for name in ("vectors_simple2", "vectors_cvsslib2", "vectors_calculator2"):
        for vec, exp in official(name):
            m = dict(tables.parse("2", vec)[1])
            got = ref2.scores(m)
            n += 1
            if not all(_eq(g, e) for g, e in zip(got, exp)):
                bad += 1
    return n, bad


def check_ref3():
    from . import ref3
    n = bad = 0
    for name in ("vectors_simple3", "vectors_simple31", "vectors_cvsslib3", "vectors_calculator3"):
        for vec, exp in official(name):
            p, fields = tables.parse("3", vec)
            got = ref3.scores(int(p[7]), dict(fields))
            n += 1
            if not all(_eq(g, e) for g, e in zip(got, exp)):
                bad += 1
    return n, bad


def check_ref4():
    from . import ref4
    n = bad = 0
    mvs = set()
    for name in ("vectors_simple4", "vectors_supplemental4", "vectors_security4", "vectors_threat4"):
        for vec, exp in official(name):
            m = dict(tables.parse("4", vec)[1])
            d = {}
            got = ref4.score_written(m, detail=d)
            if "mv" in d:
                mvs.add(d["mv"])
            n += 1
            if not _eq(got, exp[0]):
                bad += 1
    return n, bad, len(mvs)


def run(R, oracles):
    """oracles: names among 'tables', 'ref2', 'ref3', 'ref4'."""
    from ..runner import Inconclusive
    info = {}
    if "tables" in oracles or oracles:
        probs = tables.selfcheck()
        if probs:
            raise Inconclusive("spec tables self-check failed: %s" % probs[:3])
        info["tables"] = "ok"
    if "ref2" in oracles:
        n, bad = check_ref2()
        info["ref2_official_vectors"] = n
        if bad or n < 700:
            raise Inconclusive("ref2 disagrees with %d of %d official vectors" % (bad, n))
    if "ref3" in oracles:
        n, bad = check_ref3()
        info["ref3_official_vectors"] = n
        if bad or n < 5000:
            raise Inconclusive("ref3 disagrees with %d of %d official vectors" % (bad, n))
    if "ref4" in oracles:
        from . import ref4
        probs = ref4.selfcheck_table()
        if probs:
            raise Inconclusive("ref4 table self-check failed: %s" % probs[:3])
        n, bad, mvs = check_ref4()
        info["ref4_official_vectors"] = n
        info["ref4_official_macrovectors"] = mvs
        if bad or n < 1600:
            raise Inconclusive("ref4 disagrees with %d of %d official vectors" % (bad, n))
    R.coverage_extra["oracle_selfcheck"] = info
