"""Qualitative severity rating scales (own thresholds): v3/v4 specification section 5 /
6; v2: NVD's ranking (https://nvd.nist.gov/vuln-metrics/cvss)."""
from fractions import Fraction as F


def rate(ver, score):
    """score: number with one decimal, or None (v2 undefined).  Returns the rating name
    in upper case."""
    if score is None:
        return "NONE"
    x = F(str(score))
    if ver == "2":
        if x <= F("3.9"):
            return "LOW"
        if x <= F("6.9"):
            return "MEDIUM"
        return "HIGH"
    if x == 0:
        return "NONE"
    if x <= F("3.9"):
        return "LOW"
    if x <= F("6.9"):
        return "MEDIUM"
    if x <= F("8.9"):
        return "HIGH"
    return "CRITICAL"


BAND_EDGES = ["0.0", "0.1", "3.9", "4.0", "6.9", "7.0", "8.9", "9.0", "10.0"]
