"""Independent specification tables (never imports cvss.*).

Typed in from the FIRST documents: CVSS v2 complete guide, CVSS v3.0 / v3.1
specification, CVSS v4.0 specification, and the four FIRST JSON schemas (pinned
copies under spec/schemas).  Version tags: '2', '3', '4'.
"""
import json
import os
import re

HERE = os.path.dirname(os.path.abspath(__file__))

# ---------------------------------------------------------------------------
# Grammar: metrics in OFFICIAL vector-string order, with their legal values.
# v2 guide 2.4 / v3 spec table 15 / v4 spec table 23 (Base, Threat,
# Environmental, Supplemental).
# ---------------------------------------------------------------------------
_G2 = [
    ("AV", "L A N"), ("AC", "H M L"), ("Au", "M S N"), ("C", "N P C"), ("I", "N P C"), ("A", "N P C"),
    ("E", "U POC F H ND"), ("RL", "OF TF W U ND"), ("RC", "UC UR C ND"),
    ("CDP", "N L LM MH H ND"), ("TD", "N L M H ND"), ("CR", "L M H ND"), ("IR", "L M H ND"), ("AR", "L M H ND"),
]
_G3 = [
    ("AV", "N A L P"), ("AC", "L H"), ("PR", "N L H"), ("UI", "N R"), ("S", "U C"),
    ("C", "H L N"), ("I", "H L N"), ("A", "H L N"),
    ("E", "X H F P U"), ("RL", "X U W T O"), ("RC", "X C R U"),
    ("CR", "X H M L"), ("IR", "X H M L"), ("AR", "X H M L"),
    ("MAV", "X N A L P"), ("MAC", "X L H"), ("MPR", "X N L H"), ("MUI", "X N R"), ("MS", "X U C"),
    ("MC", "X H L N"), ("MI", "X H L N"), ("MA", "X H L N"),
]
_G4 = [
    ("AV", "N A L P"), ("AC", "L H"), ("AT", "N P"), ("PR", "N L H"), ("UI", "N P A"),
    ("VC", "H L N"), ("VI", "H L N"), ("VA", "H L N"), ("SC", "H L N"), ("SI", "H L N"), ("SA", "H L N"),
    ("E", "X A P U"),
    ("CR", "X H M L"), ("IR", "X H M L"), ("AR", "X H M L"),
    ("MAV", "X N A L P"), ("MAC", "X L H"), ("MAT", "X N P"), ("MPR", "X N L H"), ("MUI", "X N P A"),
    ("MVC", "X H L N"), ("MVI", "X H L N"), ("MVA", "X H L N"),
    ("MSC", "X H L N"), ("MSI", "X S H L N"), ("MSA", "X S H L N"),
    ("S", "X N P"), ("AU", "X N Y"), ("R", "X A U I"), ("V", "X D C"), ("RE", "X L M H"),
    ("U", "X Clear Green Amber Red"),
]

VERSIONS = ("2", "3", "4")
ORDER = {"2": [m for m, _ in _G2], "3": [m for m, _ in _G3], "4": [m for m, _ in _G4]}
VALUES = {
    "2": {m: v.split() for m, v in _G2},
    "3": {m: v.split() for m, v in _G3},
    "4": {m: v.split() for m, v in _G4},
}
VALSET = {ver: {m: frozenset(vs) for m, vs in VALUES[ver].items()} for ver in VERSIONS}
MANDATORY = {
    "2": ["AV", "AC", "Au", "C", "I", "A"],
    "3": ["AV", "AC", "PR", "UI", "S", "C", "I", "A"],
    "4": ["AV", "AC", "AT", "PR", "UI", "VC", "VI", "VA", "SC", "SI", "SA"],
}
OPTIONAL = {ver: [m for m in ORDER[ver] if m not in MANDATORY[ver]] for ver in VERSIONS}
ND = {"2": "ND", "3": "X", "4": "X"}
PREFIXES = {"2": ("",), "3": ("CVSS:3.0/", "CVSS:3.1/"), "4": ("CVSS:4.0/",)}
GROUPS = {
    "2": {"temporal": ["E", "RL", "RC"], "environmental": ["CDP", "TD", "CR", "IR", "AR"]},
    "3": {"temporal": ["E", "RL", "RC"],
          "environmental": ["CR", "IR", "AR", "MAV", "MAC", "MPR", "MUI", "MS", "MC", "MI", "MA"]},
    "4": {"threat": ["E"],
          "environmental": ["CR", "IR", "AR", "MAV", "MAC", "MAT", "MPR", "MUI", "MVC", "MVI", "MVA", "MSC", "MSI", "MSA"],
          "supplemental": ["S", "AU", "R", "V", "RE", "U"]},
}
# Modified metric -> its base metric
MODIFIED = {
    "3": {"M" + b: b for b in ["AV", "AC", "PR", "UI", "S", "C", "I", "A"]},
    "4": {"M" + b: b for b in ["AV", "AC", "AT", "PR", "UI", "VC", "VI", "VA", "SC", "SI", "SA"]},
    "2": {},
}
# Not Defined -> the value the specification declares equivalent (property C06 b)
ND_EQUIV = {
    "2": {"E": "H", "RL": "U", "RC": "C", "CDP": "N", "TD": "H", "CR": "M", "IR": "M", "AR": "M"},
    "3": {"E": "H", "RL": "U", "RC": "C", "CR": "M", "IR": "M", "AR": "M"},
    "4": {"E": "A", "CR": "H", "IR": "H", "AR": "H"},
}
SUPPLEMENTAL4 = GROUPS["4"]["supplemental"]
SCORING4 = ["AV", "PR", "UI", "AC", "AT", "VC", "VI", "VA", "SC", "SI", "SA", "CR", "IR", "AR", "E"]

# Severity order of each metric's values, MOST severe first (C14).  ND-equivalents
# are listed through ND_EQUIV; 'S' for SI/SA is reachable only through MSI/MSA.
SEVERITY_ORDER = {
    "2": {"AV": "N A L", "AC": "L M H", "Au": "N S M", "C": "C P N", "I": "C P N", "A": "C P N",
          "E": "H F POC U", "RL": "U W TF OF", "RC": "C UR UC"},
    "3": {"AV": "N A L P", "AC": "L H", "PR": "N L H", "UI": "N R", "S": "C U",
          "C": "H L N", "I": "H L N", "A": "H L N",
          "E": "H F P U", "RL": "U W T O", "RC": "C R U",
          "CR": "H M L", "IR": "H M L", "AR": "H M L",
          "MAV": "N A L P", "MAC": "L H", "MPR": "N L H", "MUI": "N R", "MS": "C U",
          "MC": "H L N", "MI": "H L N", "MA": "H L N"},
    "4": {"AV": "N A L P", "AC": "L H", "AT": "N P", "PR": "N L H", "UI": "N P A",
          "VC": "H L N", "VI": "H L N", "VA": "H L N", "SC": "H L N", "SI": "S H L N", "SA": "S H L N",
          "CR": "H M L", "IR": "H M L", "AR": "H M L", "E": "A P U"},
}
SEVERITY_ORDER = {v: {m: s.split() for m, s in d.items()} for v, d in SEVERITY_ORDER.items()}
# v3.0 environmental score: exempt metrics (standard itself non-monotone there)
V30_ENV_EXEMPT = frozenset(["C", "I", "A", "MC", "MI", "MA", "CR", "IR", "AR"])

# ---------------------------------------------------------------------------
# Recogniser: ACCEPT / MALFORMED / MANDATORY  (property C04)
# ---------------------------------------------------------------------------
ACCEPT, MALFORMED, MANDATORY_MISSING = "ACCEPT", "MALFORMED", "MANDATORY"


def split_prefix(ver, s):
    for p in PREFIXES[ver]:
        if s.startswith(p):
            return p, s[len(p):]
    return None, None


def classify(ver, s):
    """Literal reading of the property: prefix, '/'-separated 'metric:value' fields,
    legal metric, legal value, no repeat, no empty field; then mandatory metrics."""
    if not isinstance(s, str):
        return MALFORMED
    p, body = split_prefix(ver, s)
    if p is None or body == "":
        return MALFORMED
    tab = VALSET[ver]
    seen = set()
    for f in body.split("/"):
        parts = f.split(":")
        if len(parts) != 2:
            return MALFORMED
        m, v = parts
        if m not in tab or v not in tab[m] or m in seen:
            return MALFORMED
        seen.add(m)
    for m in MANDATORY[ver]:
        if m not in seen:
            return MANDATORY_MISSING
    return ACCEPT


def parse(ver, s):
    """(prefix, [(metric, value), ...]) of an ACCEPTed string, in written order."""
    p, body = split_prefix(ver, s)
    return p, [tuple(f.split(":")) for f in body.split("/")]


def defined(ver, fields):
    """dict of the metrics given a defined (non-ND) value."""
    nd = ND[ver]
    return {m: v for m, v in fields if v != nd}


def canon_key(ver, s):
    """Canonical identity of an accepted vector: version tag (3.0 != 3.1) and the set
    of defined metric values (property C07)."""
    p, fields = parse(ver, s)
    return (p if ver != "2" else "v2", frozenset(defined(ver, fields).items()))


def spell(prefix, fields):
    return prefix + "/".join(m + ":" + v for m, v in fields)


def official_order(ver, metrics):
    idx = {m: i for i, m in enumerate(ORDER[ver])}
    return sorted(metrics, key=lambda m: idx[m])


def effective(ver, metrics):
    """Effective value of every metric of the version, from the metrics as written
    (dict): stated value; base value for an undefined Modified metric; ND otherwise."""
    nd = ND[ver]
    out = {}
    for m in ORDER[ver]:
        v = metrics.get(m, nd)
        if v == nd and m in MODIFIED[ver]:
            v = metrics[MODIFIED[ver][m]]
        out[m] = v
    return out


# ---------------------------------------------------------------------------
# JSON representation (C10/C11)
# ---------------------------------------------------------------------------
def load_schema(tag):
    with open(os.path.join(HERE, "schemas", "cvss-v%s.json" % tag)) as f:
        return json.load(f)


SCHEMA_TAG = {"": "2.0", "CVSS:3.0/": "3.0", "CVSS:3.1/": "3.1", "CVSS:4.0/": "4.0"}
_pat_cache = {}


def official_pattern(tag):
    """vectorString pattern of FIRST's schema, compiled for Python `re`.  The patterns
    use only literals, classes, groups, '?', '*' and alternation (identical ECMA/Python
    semantics); '$' is replaced by \\Z so that a trailing newline cannot slip through."""
    if tag not in _pat_cache:
        pat = load_schema(tag)["properties"]["vectorString"]["pattern"]
        assert pat.startswith("^") and pat.endswith("$")
        _pat_cache[tag] = re.compile(pat[:-1] + r"\Z")
    return _pat_cache[tag]


# JSON key of each metric: official schema name first; for v4 the second entry is the
# (non-schema) key in use at the pinned commit.  A metric field is looked up under any.
JSON_KEYS = {
    "2": {"AV": ["accessVector"], "AC": ["accessComplexity"], "Au": ["authentication"],
          "C": ["confidentialityImpact"], "I": ["integrityImpact"], "A": ["availabilityImpact"],
          "E": ["exploitability"], "RL": ["remediationLevel"], "RC": ["reportConfidence"],
          "CDP": ["collateralDamagePotential"], "TD": ["targetDistribution"],
          "CR": ["confidentialityRequirement"], "IR": ["integrityRequirement"], "AR": ["availabilityRequirement"]},
    "3": {"AV": ["attackVector"], "AC": ["attackComplexity"], "PR": ["privilegesRequired"],
          "UI": ["userInteraction"], "S": ["scope"], "C": ["confidentialityImpact"],
          "I": ["integrityImpact"], "A": ["availabilityImpact"],
          "E": ["exploitCodeMaturity"], "RL": ["remediationLevel"], "RC": ["reportConfidence"],
          "CR": ["confidentialityRequirement"], "IR": ["integrityRequirement"], "AR": ["availabilityRequirement"],
          "MAV": ["modifiedAttackVector"], "MAC": ["modifiedAttackComplexity"],
          "MPR": ["modifiedPrivilegesRequired"], "MUI": ["modifiedUserInteraction"], "MS": ["modifiedScope"],
          "MC": ["modifiedConfidentialityImpact"], "MI": ["modifiedIntegrityImpact"],
          "MA": ["modifiedAvailabilityImpact"]},
    "4": {"AV": ["attackVector"], "AC": ["attackComplexity"], "AT": ["attackRequirements", "attackRequirement"],
          "PR": ["privilegesRequired"], "UI": ["userInteraction"],
          "VC": ["vulnConfidentialityImpact", "vulnerableSystemImpactConfidentiality"],
          "VI": ["vulnIntegrityImpact", "vulnerableSystemImpactIntegrity"],
          "VA": ["vulnAvailabilityImpact", "vulnerableSystemImpactAvailability"],
          "SC": ["subConfidentialityImpact", "subsequentSystemImpactConfidentiality"],
          "SI": ["subIntegrityImpact", "subsequentSystemImpactIntegrity"],
          "SA": ["subAvailabilityImpact", "subsequentSystemImpactAvailability"],
          "E": ["exploitMaturity"],
          "CR": ["confidentialityRequirement", "confidentialityRequirements"],
          "IR": ["integrityRequirement", "integrityRequirements"],
          "AR": ["availabilityRequirement", "availabilityRequirements"],
          "MAV": ["modifiedAttackVector"], "MAC": ["modifiedAttackComplexity"],
          "MAT": ["modifiedAttackRequirements", "modifiedAttackRequirement"],
          "MPR": ["modifiedPrivilegesRequired"], "MUI": ["modifiedUserInteraction"],
          "MVC": ["modifiedVulnConfidentialityImpact", "modifiedVulnerableSystemImpactConfidentiality"],
          "MVI": ["modifiedVulnIntegrityImpact", "modifiedVulnerableSystemImpactIntegrity"],
          "MVA": ["modifiedVulnAvailabilityImpact", "modifiedVulnerableSystemImpactAvailability"],
          "MSC": ["modifiedSubConfidentialityImpact", "modifiedSubsequentSystemImpactConfidentiality"],
          "MSI": ["modifiedSubIntegrityImpact", "modifiedSubsequentSystemImpactIntegrity"],
          "MSA": ["modifiedSubAvailabilityImpact", "modifiedSubsequentSystemImpactAvailability"],
          "S": ["Safety", "safety"], "AU": ["Automatable", "automatable"], "R": ["Recovery", "recovery"],
          "V": ["valueDensity"], "RE": ["vulnerabilityResponseEffort"], "U": ["providerUrgency"]},
}

# Accepted JSON names of each (metric, value): the schema enum, plus display names of the
# specification / calculators.  Compared after upper-casing and mapping '-' and ' ' to '_'.
_N = "NOT_DEFINED"
_CIA2 = {"N": ["NONE"], "P": ["PARTIAL"], "C": ["COMPLETE"]}
_REQ2 = {"L": ["LOW"], "M": ["MEDIUM"], "H": ["HIGH"], "ND": [_N]}
_CIA3 = {"H": ["HIGH"], "L": ["LOW"], "N": ["NONE"]}
_REQ3 = {"X": [_N], "H": ["HIGH"], "M": ["MEDIUM"], "L": ["LOW"]}
_AV3 = {"N": ["NETWORK"], "A": ["ADJACENT_NETWORK", "ADJACENT"], "L": ["LOCAL"], "P": ["PHYSICAL"]}
_SUB4 = {"H": ["HIGH"], "L": ["LOW"], "N": ["NONE", "NEGLIGIBLE"]}
_SUBIA4 = {"S": ["SAFETY"], "H": ["HIGH"], "L": ["LOW"], "N": ["NONE", "NEGLIGIBLE"]}


def _mod(d):
    r = dict(d)
    r["X"] = [_N]
    return r


JSON_NAMES = {
    "2": {"AV": {"L": ["LOCAL"], "A": ["ADJACENT_NETWORK"], "N": ["NETWORK"]},
          "AC": {"H": ["HIGH"], "M": ["MEDIUM"], "L": ["LOW"]},
          "Au": {"M": ["MULTIPLE", "MULTIPLE_INSTANCES"], "S": ["SINGLE", "SINGLE_INSTANCE"], "N": ["NONE"]},
          "C": _CIA2, "I": _CIA2, "A": _CIA2,
          "E": {"U": ["UNPROVEN"], "POC": ["PROOF_OF_CONCEPT"], "F": ["FUNCTIONAL"], "H": ["HIGH"], "ND": [_N]},
          "RL": {"OF": ["OFFICIAL_FIX"], "TF": ["TEMPORARY_FIX"], "W": ["WORKAROUND"], "U": ["UNAVAILABLE"], "ND": [_N]},
          "RC": {"UC": ["UNCONFIRMED"], "UR": ["UNCORROBORATED"], "C": ["CONFIRMED"], "ND": [_N]},
          "CDP": {"N": ["NONE"], "L": ["LOW"], "LM": ["LOW_MEDIUM"], "MH": ["MEDIUM_HIGH"], "H": ["HIGH"], "ND": [_N]},
          "TD": {"N": ["NONE"], "L": ["LOW"], "M": ["MEDIUM"], "H": ["HIGH"], "ND": [_N]},
          "CR": _REQ2, "IR": _REQ2, "AR": _REQ2},
    "3": {"AV": _AV3, "AC": {"L": ["LOW"], "H": ["HIGH"]}, "PR": {"N": ["NONE"], "L": ["LOW"], "H": ["HIGH"]},
          "UI": {"N": ["NONE"], "R": ["REQUIRED"]}, "S": {"U": ["UNCHANGED"], "C": ["CHANGED"]},
          "C": _CIA3, "I": _CIA3, "A": _CIA3,
          "E": {"X": [_N], "H": ["HIGH"], "F": ["FUNCTIONAL"], "P": ["PROOF_OF_CONCEPT"], "U": ["UNPROVEN"]},
          "RL": {"X": [_N], "U": ["UNAVAILABLE"], "W": ["WORKAROUND"], "T": ["TEMPORARY_FIX"], "O": ["OFFICIAL_FIX"]},
          "RC": {"X": [_N], "C": ["CONFIRMED"], "R": ["REASONABLE"], "U": ["UNKNOWN"]},
          "CR": _REQ3, "IR": _REQ3, "AR": _REQ3,
          "MAV": _mod(_AV3), "MAC": {"X": [_N], "L": ["LOW"], "H": ["HIGH"]},
          "MPR": {"X": [_N], "N": ["NONE"], "L": ["LOW"], "H": ["HIGH"]},
          "MUI": {"X": [_N], "N": ["NONE"], "R": ["REQUIRED"]}, "MS": {"X": [_N], "U": ["UNCHANGED"], "C": ["CHANGED"]},
          "MC": _mod(_CIA3), "MI": _mod(_CIA3), "MA": _mod(_CIA3)},
    "4": {"AV": _AV3, "AC": {"L": ["LOW"], "H": ["HIGH"]}, "AT": {"N": ["NONE"], "P": ["PRESENT"]},
          "PR": {"N": ["NONE"], "L": ["LOW"], "H": ["HIGH"]},
          "UI": {"N": ["NONE"], "P": ["PASSIVE"], "A": ["ACTIVE"]},
          "VC": _CIA3, "VI": _CIA3, "VA": _CIA3,
          "SC": _SUB4, "SI": _SUB4, "SA": _SUB4,
          "E": {"X": [_N], "A": ["ATTACKED"], "P": ["PROOF_OF_CONCEPT", "POC"], "U": ["UNREPORTED"]},
          "CR": _REQ3, "IR": _REQ3, "AR": _REQ3,
          "MAV": _mod(_AV3), "MAC": {"X": [_N], "L": ["LOW"], "H": ["HIGH"]},
          "MAT": {"X": [_N], "N": ["NONE"], "P": ["PRESENT"]},
          "MPR": {"X": [_N], "N": ["NONE"], "L": ["LOW"], "H": ["HIGH"]},
          "MUI": {"X": [_N], "N": ["NONE"], "P": ["PASSIVE"], "A": ["ACTIVE"]},
          "MVC": _mod(_CIA3), "MVI": _mod(_CIA3), "MVA": _mod(_CIA3),
          "MSC": _mod(_SUB4), "MSI": _mod(_SUBIA4), "MSA": _mod(_SUBIA4),
          "S": {"X": [_N], "N": ["NEGLIGIBLE"], "P": ["PRESENT"]},
          "AU": {"X": [_N], "N": ["NO"], "Y": ["YES"]},
          "R": {"X": [_N], "A": ["AUTOMATIC"], "U": ["USER"], "I": ["IRRECOVERABLE", "INRECOVERABLE"]},
          "V": {"X": [_N], "D": ["DIFFUSE"], "C": ["CONCENTRATED"]},
          "RE": {"X": [_N], "L": ["LOW"], "M": ["MODERATE"], "H": ["HIGH"]},
          "U": {"X": [_N], "Clear": ["CLEAR"], "Green": ["GREEN"], "Amber": ["AMBER"], "Red": ["RED"]}},
}


def norm_name(x):
    return x.upper().replace("-", "_").replace(" ", "_") if isinstance(x, str) else x


def decode_name(ver, metric, name):
    """Values of `metric` whose accepted-name set contains `name` (normalised)."""
    n = norm_name(name)
    return [v for v, names in JSON_NAMES[ver][metric].items() if n in names]


# JSON score/severity fields per version and score slot
SCORE_FIELDS = {
    "2": [("baseScore", None), ("temporalScore", None), ("environmentalScore", None)],
    "3": [("baseScore", "baseSeverity"), ("temporalScore", "temporalSeverity"),
          ("environmentalScore", "environmentalSeverity")],
    "4": [("baseScore", "baseSeverity")],
}
# minimal=True may remove exactly these groups (keys found through JSON_KEYS + score fields)
MINIMAL_GROUPS = {
    "2": {"temporal": (GROUPS["2"]["temporal"], ["temporalScore"]),
          "environmental": (GROUPS["2"]["environmental"], ["environmentalScore"])},
    "3": {"temporal": (GROUPS["3"]["temporal"], ["temporalScore", "temporalSeverity"]),
          "environmental": (GROUPS["3"]["environmental"], ["environmentalScore", "environmentalSeverity"])},
    "4": {"threat": (GROUPS["4"]["threat"], ["threatScore", "threatSeverity"]),
          "environmental": (GROUPS["4"]["environmental"], ["environmentalScore", "environmentalSeverity"]),
          "supplemental": (GROUPS["4"]["supplemental"], [])},
}


def selfcheck():
    """Internal consistency of the tables (run before they judge anything)."""
    problems = []
    for ver in VERSIONS:
        if set(JSON_KEYS[ver]) != set(ORDER[ver]):
            problems.append("JSON_KEYS %s metric set" % ver)
        for m in ORDER[ver]:
            if set(JSON_NAMES[ver][m]) != set(VALUES[ver][m]):
                problems.append("JSON_NAMES %s %s value set" % (ver, m))
            names = [n for ns in JSON_NAMES[ver][m].values() for n in ns]
            if len(names) != len(set(names)):
                problems.append("JSON_NAMES %s %s ambiguous" % (ver, m))
        for m in MANDATORY[ver]:
            if ND[ver] in VALUES[ver][m]:
                problems.append("mandatory %s has ND" % m)
        for m in OPTIONAL[ver]:
            if ND[ver] not in VALUES[ver][m]:
                problems.append("optional %s lacks ND" % m)
        for m, order in SEVERITY_ORDER[ver].items():
            legal = set(VALUES[ver][m]) - {ND[ver]}
            if m in ("SI", "SA") and ver == "4":
                legal = legal | {"S"}
            if set(order) != legal:
                problems.append("SEVERITY_ORDER %s %s" % (ver, m))
        grouped = [m for g in GROUPS[ver].values() for m in g]
        if sorted(grouped) != sorted(OPTIONAL[ver]):
            problems.append("GROUPS %s" % ver)
    # official schema enums must be contained in the accepted-name sets, under the official key
    for ver, tags in (("2", ["2.0"]), ("3", ["3.0", "3.1"]), ("4", ["4.0"])):
        for tag in tags:
            sch = load_schema(tag)
            for m in ORDER[ver]:
                key = JSON_KEYS[ver][m][0]
                if key not in sch["properties"]:
                    problems.append("schema %s lacks key %s" % (tag, key))
                    continue
                ref = sch["properties"][key]["$ref"].split("/")[-1]
                enum = set(sch["definitions"][ref]["enum"])
                mine = set(ns[0] for v, ns in JSON_NAMES[ver][m].items())
                if ver == "4" and m in ("AV", "MAV"):
                    mine = (mine - {"ADJACENT_NETWORK"}) | {"ADJACENT"}
                if enum != mine:
                    problems.append("schema %s enum of %s: %s vs %s" % (tag, key, sorted(enum), sorted(mine)))
            # the official pattern accepts a full vector in official order
            pat = official_pattern(tag)
            prefix = [p for p, t in SCHEMA_TAG.items() if t == tag][0]
            for pick in (0, -1):
                s = spell(prefix, [(m, VALUES[ver][m][pick]) for m in ORDER[ver]])
                if not pat.match(s):
                    problems.append("official pattern %s rejects %s" % (tag, s))
    return problems
