"""Driver for the interactive builder through sys.stdin / sys.stdout, and answer-script
generators (from own tables)."""
import io
import sys

from ..bootstrap import lib
from ..spec import tables as T

VERSION_ARG = {"2": 2, "3.0": 3.0, "3.1": 3.1, "4": 4.0}
VER_OF = {"2": "2", "3.0": "3", "3.1": "3", "4": "4"}
PREFIX_OF = {"2": "", "3.0": "CVSS:3.0/", "3.1": "CVSS:3.1/", "4": "CVSS:4.0/"}


MODES = []  # distinct (version, all_metrics) modes run so far in THIS process, in order of first use
RECENT = []  # the last interactive sessions run in THIS process (history part of a witness)


class ReadLimit(Exception):
    pass


class CountingIn(io.StringIO):
    def __init__(self, text, limit):
        io.StringIO.__init__(self, text)
        self.reads = 0
        self.limit = limit

    def readline(self, *a):
        self.reads += 1
        if self.reads > self.limit:
            raise ReadLimit()
        return io.StringIO.readline(self, *a)


# other spellings of the version argument that denote the same version (2 == 2.0, 3 == 3.0,
# 4 == 4.0; the docstring of ask_interactively says "2 or 3.0/3.1 or 4")
VERSION_ARG_ALT = {"2": [2, 2.0], "3.0": [3.0, 3], "3.1": [3.1], "4": [4.0, 4]}


def run_dialogue(vtag, all_metrics, answers, no_colors=True, limit=None, version_arg=None):
    """Returns dict(ret=..|None, exc=..|None, out=str, reads=int).  answers: list of str
    (without newline).  EOF after the last answer."""
    L = lib()
    text = "".join(a + "\n" for a in answers)
    fin = CountingIn(text, limit or (len(answers) + 5))
    fout = io.StringIO()
    old = sys.stdin, sys.stdout
    sys.stdin, sys.stdout = fin, fout
    r = {"ret": None, "exc": None}
    try:
        try:
            r["ret"] = L.interactive.ask_interactively(VERSION_ARG[vtag] if version_arg is None else version_arg,
                                                       all_metrics, no_colors)
        except ReadLimit:
            r["exc"] = "ReadLimit"
        except EOFError:
            r["exc"] = "EOFError"
        except Exception as e:  # noqa
            r["exc"] = type(e).__name__
            r["exc_repr"] = repr(e)
    finally:
        sys.stdin, sys.stdout = old
    if [vtag, bool(all_metrics)] not in MODES:
        MODES.append([vtag, bool(all_metrics)])
    RECENT.append([vtag, bool(all_metrics), list(answers)[:400]])
    del RECENT[:-4]
    r["out"] = fout.getvalue()
    r["reads"] = min(fin.reads, fin.limit)
    r["consumed_all"] = fin.tell() >= len(text)
    return r


def metric_set(vtag, all_metrics):
    ver = VER_OF[vtag]
    return set(T.ORDER[ver]) if all_metrics else set(T.MANDATORY[ver])


def case_variants(v, rng=None):
    """lower / upper / mixed-case spellings of a value."""
    outs = {v, v.lower(), v.upper()}
    if len(v) > 1:
        outs.add(v[0].lower() + v[1:].upper())
        outs.add(v.swapcase())
    return sorted(outs)


JUNK = ["?", "Q", "ZZ", "0", "1", "-", "N/A", "NONE", "high", "Not Defined", "XX", "ND ND", ":", "/", "é", "AV:N", "x x",
        "\t?", "None", "null", "*",
        # format / template metacharacters (an answer is user text and may end up in a message)
        "{", "}", "{}", "{0}", "{x}", "n}", "{7}", "%s", "%(x)s", "%", "\\", "$x", "${x}", "'", "\"", "\x1b[0m", "(N)", "|"]


_order_cache = {}


def question_order(vtag, all_metrics):
    """Question order as WITNESSED by the return value of a probing run (the property
    does not fix the order): every question is answered by cycling through all values
    of the version until one is accepted.  Returns (order list, probe result)."""
    key = (vtag, bool(all_metrics))
    if key in _order_cache:
        return _order_cache[key]
    ver = VER_OF[vtag]
    vals = []
    for m in T.ORDER[ver]:
        for v in T.VALUES[ver][m]:
            if v not in vals:
                vals.append(v)
    n = len(T.ORDER[ver])
    answers = vals * (n + 1)
    r = run_dialogue(vtag, all_metrics, answers, limit=len(answers) + 5)
    order = None
    if r["ret"] is not None and isinstance(r["ret"], str):
        p = PREFIX_OF[vtag]
        body = r["ret"][len(p):] if r["ret"].startswith(p) else r["ret"]
        try:
            order = [f.split(":")[0] for f in body.split("/")]
        except Exception:
            order = None
        # usable as a witness only if it names each expected metric exactly once
        if order is not None and (len(order) != len(set(order)) or set(order) != metric_set(vtag, all_metrics)):
            order = None
    _order_cache[key] = (order, r)
    return order, r


def script_for(order, target, rng=None, noise=0.0, case="asis"):
    """Answers selecting target[metric] for each question in `order`; with probability
    `noise` an invalid answer (for that metric) is inserted first.  Returns
    (answers, expected_reads)."""
    answers = []
    for m in order:
        v = target[m]
        if rng is not None and noise and rng.random() < noise:
            answers.append(rng.choice(JUNK))
        if case == "lower":
            v = v.lower()
        elif case == "upper":
            v = v.upper()
        elif case == "mixed" and rng is not None:
            v = "".join(c.upper() if rng.random() < 0.5 else c.lower() for c in v)
        answers.append(v)
    return answers
