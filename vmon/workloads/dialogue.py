"""Driver for the interactive builder through sys.stdin / sys.stdout, and answer-script
generators (from own tables)."""
import io
import sys

from ..bootstrap import lib
from ..spec import tables as T

VERSION_ARG = {"2": 2, "3.0": 3.0, "3.1": 3.1, "4": 4.0}
VER_OF = {"2": "2", "3.0": "3", "3.1": "3", "4": "4"}
PREFIX_OF = {"2": "", "3.0": "CVSS:3.0/", "3.1": "CVSS:3.1/", "4": "CVSS:4.0/"}


MODES = []  # distinct (version, all_metrics) modes run so far in THIS process, in order of first use
RECENT = []  # the last interactive sessions run in THIS process (history part of a witness)


class ReadLimit(Exception):
    pass


class CountingIn(io.StringIO):
    def __init__(self, text, limit):
        io.StringIO.__init__(self, text)
        self.reads = 0
        self.limit = limit

    def readline(self, *a):
        self.reads += 1
        if self.reads > self.limit:
            raise ReadLimit()
        return io.StringIO.readline(self, *a)


# other spellings of the version argument that denote the same version (2 == 2.0, 3 == 3.0,
# 4 == 4.0; the docstring of ask_interactively says "2 or 3.0/3.1 or 4")
VERSION_ARG_ALT = {"2": [2, 2.0], "3.0": [3.0, 3], "3.1": [3.1], "4": [4.0, 4]}


class MinimalOut(object):
    """The least a replacement for sys.stdout has to offer: write() and flush() (no isatty, fileno, encoding)."""

    def __init__(self):
        self.buf = []

    def write(self, s):
        self.buf.append(s)
        return len(s)

    def flush(self):
        pass

    def getvalue(self):
        return "".join(self.buf)


def run_dialogue(vtag, all_metrics, answers, no_colors=None, limit=None, version_arg=None):
    """Returns dict(ret=..|None, exc=..|None, out=str, reads=int).  answers: list of str
    (without newline).  EOF after the last answer.  Presentation is varied as a function of the input (so that
    the same input always runs the same way): colours on for one script in three, and for one in four
    sys.stdout is an object that has write() and flush() and nothing else."""
    import zlib
    L = lib()
    text = "".join(a + "\n" for a in answers)
    fin = CountingIn(text, limit or (len(answers) + 5))
    h = zlib.crc32(repr((vtag, bool(all_metrics), list(answers))).encode("utf-8", "replace"))
    if answers and answers[-1] and h % 5 == 3:
        text = text[:-1]  # the last line without a line end (an answers file without a final newline) is still a line
        fin = CountingIn(text, limit or (len(answers) + 5))
    if no_colors is None:
        no_colors = h % 3 != 0
    raw = None
    if h % 4 == 1:
        fout = MinimalOut()
    elif h % 4 == 2 and all(ord(ch) < 128 for ch in text):
        # ASCII-only answers on a stream that can take ASCII only (LANG=C, PYTHONIOENCODING=ascii): whatever the builder
        # prints for them must be printable there
        raw = io.BytesIO()
        fout = io.TextIOWrapper(raw, encoding="ascii", errors="strict", newline="", write_through=True)
    else:
        fout = io.StringIO()
    old = sys.stdin, sys.stdout
    sys.stdin, sys.stdout = fin, fout
    r = {"ret": None, "exc": None}
    try:
        try:
            r["ret"] = L.interactive.ask_interactively(VERSION_ARG[vtag] if version_arg is None else version_arg,
                                                       all_metrics, no_colors)
        except ReadLimit:
            r["exc"] = "ReadLimit"
        except EOFError:
            r["exc"] = "EOFError"
        except Exception as e:  # noqa
            r["exc"] = type(e).__name__
            r["exc_repr"] = repr(e)
    finally:
        sys.stdin, sys.stdout = old
    if [vtag, bool(all_metrics)] not in MODES:
        MODES.append([vtag, bool(all_metrics)])
    RECENT.append([vtag, bool(all_metrics), list(answers)[:400]])
    del RECENT[:-4]
    r["out"] = raw.getvalue().decode("ascii", "replace") if raw is not None else fout.getvalue()
    r["reads"] = min(fin.reads, fin.limit)
    r["consumed_all"] = fin.tell() >= len(text)
    return r


def metric_set(vtag, all_metrics):
    ver = VER_OF[vtag]
    return set(T.ORDER[ver]) if all_metrics else set(T.MANDATORY[ver])


def case_variants(v, rng=None):
    """lower / upper / mixed-case spellings of a value."""
    outs = {v, v.lower(), v.upper()}
    if len(v) > 1:
        outs.add(v[0].lower() + v[1:].upper())
        outs.add(v.swapcase())
    return sorted(outs)


JUNK = ["?", "Q", "ZZ", "0", "1", "-", "N/A", "NONE", "high", "Not Defined", "XX", "ND ND", ":", "/", "é", "AV:N", "x x",
        "\t?", "None", "null", "*",
        # format / template metacharacters (an answer is user text and may end up in a message)
        "{", "}", "{}", "{0}", "{x}", "n}", "{7}", "%s", "%(x)s", "%", "\\", "$x", "${x}", "'", "\"", "\x1b[0m", "(N)", "|",
        # every other ASCII punctuation mark alone, and the words an interactive prompt might one day treat as commands
        "!", "#", "$", "&", "(", ")", "+", ",", ".", ";", "<", "=", ">", "@", "[", "]", "^", "_", "`", "~", "<<", "..", "--",
        "back", "b", "undo", "quit", "exit", "q", "help", "skip", "yes", "no", "all", "default", "network", "adj", "unchanged",
        # terminal control sequences typed by accident (cursor keys, DEL, Ctrl-L)
        "\x1b[A", "\x1b[D", "\x1bOH", "\x7f", "\x0c"]


# lengths at which a bounded read, a line buffer or a length cap changes behaviour (with and without the newline counted)
JUNK_LENGTHS = sorted(set(n + d for k in range(4, 14) for n in (2 ** k,) for d in (-2, -1, 0, 1)) | set((80, 79, 81, 100, 1000, 1001, 72, 120)))


def long_junk(rng, n=None):
    """An answer of exactly n characters that is legal for no metric of any version (a pasted hash, a line of dashes...)."""
    n = n or rng.choice(JUNK_LENGTHS)
    unit = rng.choice(("0123456789abcdef", "z", "-", "N ", "na", "Q:Z/"))
    return (unit * (n // len(unit) + 1))[:n - 1] + "#"


def junk(rng):
    return long_junk(rng) if rng.random() < 0.1 else rng.choice(JUNK)


_order_cache = {}


def _all_values(ver):
    vals = []
    for m in T.ORDER[ver]:
        for v in T.VALUES[ver][m]:
            if v not in vals:
                vals.append(v)
    return vals


def _fields_of(vtag, ret):
    """{metric: value} of a returned string, or None if it has no such shape."""
    if not isinstance(ret, str):
        return None
    p = PREFIX_OF[vtag]
    if p and not ret.startswith(p):
        return None
    out = {}
    for f in ret[len(p):].split("/"):
        parts = f.split(":")
        if len(parts) != 2 or parts[0] in out:
            return None
        out[parts[0]] = parts[1]
    return out


def _validates(vtag, all_metrics, order, n=12):
    """Does the sequential model with this question order reproduce n plain dialogues?"""
    import random
    from ..spec import dialogue as M
    ver = VER_OF[vtag]
    rng = random.Random("order-validation-%s-%s" % (vtag, all_metrics))
    for _ in range(n):
        answers = []
        for q in order:
            if rng.random() < 0.3:
                answers.append("?")
            answers.append(rng.choice(T.VALUES[ver][q]))
        r = run_dialogue(vtag, all_metrics, answers)
        got = _fields_of(vtag, r["ret"]) if r["ret"] is not None else None
        outs = [o for o in M.simulate(ver, order, answers) if o[0] is not None]
        if got is None or not any(dict(o[0]) == got for o in outs):
            return False
    return True


def question_order(vtag, all_metrics):
    """The order in which the builder asks its questions, established EXPERIMENTALLY and
    without reading the prompts (the property fixes neither the question order nor the
    field order of the returned vector, so neither may be assumed):

    with the answers to questions 1..i-1 fixed, question i is given each value t of the
    version in turn, followed by a universal completion tail.  Two values that are both
    legal for question i leave the tail aligned identically, so the two returned vectors
    differ in exactly ONE field -- the metric of question i.  (An illegal t is rejected, the
    tail shifts, and all illegal values give one and the same result.)

    Returns (order list or None, result of a plain probing run)."""
    key = (vtag, bool(all_metrics))
    if key in _order_cache:
        return _order_cache[key]
    ver = VER_OF[vtag]
    vals = _all_values(ver)
    expected = metric_set(vtag, all_metrics)
    tail = vals * (len(T.ORDER[ver]) + 2)
    probe = run_dialogue(vtag, all_metrics, list(tail), limit=len(tail) + 5)
    known = []  # [(metric, a legal answer)]
    order = []
    for i in range(len(expected)):
        found = None
        # several rotations of the completion tail: with an unlucky alignment a legal answer and
        # a rejected one can give the same result; another rotation separates them
        for rot in range(len(vals)):
            rtail = (vals[rot:] + vals[:rot]) * (len(T.ORDER[ver]) + 2)
            res = {}
            for t in vals:
                answers = [a for _m, a in known] + [t] + rtail
                r = run_dialogue(vtag, all_metrics, answers, limit=len(answers) + 5)
                res[t] = _fields_of(vtag, r["ret"]) if r["ret"] is not None else None
            # result when question i REJECTS its first answer (illegal for every metric): a value
            # t that yields this same result was rejected too and says nothing about question i
            answers = [a for _m, a in known] + ["?"] + rtail
            r = run_dialogue(vtag, all_metrics, answers, limit=len(answers) + 5)
            rj = _fields_of(vtag, r["ret"]) if r["ret"] is not None else None
            for a in range(len(vals)):
                ra = res[vals[a]]
                if ra is None or set(ra) != expected or ra == rj:
                    continue
                for b in range(a + 1, len(vals)):
                    rb = res[vals[b]]
                    if rb is None or set(rb) != expected or rb == rj:
                        continue
                    diff = [m for m in ra if ra[m] != rb[m]]
                    if len(diff) == 1 and diff[0] not in order:
                        m = diff[0]
                        if ra[m].upper() == vals[a].upper() and rb[m].upper() == vals[b].upper():
                            found = (m, vals[a])
                            break
                if found:
                    break
            if found:
                break
        if not found:
            order = None
            break
        order.append(found[0])
        known.append(found)
    if order is not None and (len(order) != len(set(order)) or set(order) != expected):
        order = None
    # the weaker witness: the field order of the returned vector
    f = _fields_of(vtag, probe["ret"]) if probe["ret"] is not None else None
    weak = list(f) if f is not None and set(f) == expected else None
    if order is None:
        order = weak
    elif weak is not None and weak != order and not _validates(vtag, all_metrics, order) and _validates(vtag, all_metrics, weak):
        order = weak  # the experimentally found order does not explain plain dialogues, the weak witness does
    del RECENT[:]  # the probing sessions are not part of any later witness's 'recent' history
    _order_cache[key] = (order, probe)
    return order, probe


def script_for(order, target, rng=None, noise=0.0, case="asis", ver=None):
    """Answers selecting target[metric] for each question in `order`; with probability
    `noise` an invalid answer (for that metric) is inserted first -- with `ver` given, sometimes
    the empty answer where Not Defined is not legal.  Returns the answers."""
    answers = []
    for m in order:
        v = target[m]
        if rng is not None and noise and rng.random() < noise:
            if ver is not None and T.ND[ver] not in T.VALUES[ver][m] and rng.random() < 0.3:
                answers.append("")
            else:
                answers.append(junk(rng))
        if case == "lower":
            v = v.lower()
        elif case == "upper":
            v = v.upper()
        elif case == "mixed" and rng is not None:
            v = "".join(c.upper() if rng.random() < 0.5 else c.lower() for c in v)
        answers.append(v)
    return answers
