"""Seeded generators of vectors, spellings and mutants (all from spec tables, never from
the library's own constants)."""
import itertools

from ..spec import tables as T


def rand_metrics(rng, ver, p_opt=0.5, p_nd=0.25):
    """Random metrics-as-written: all mandatory metrics, each optional metric with
    probability p_opt; an included optional metric is spelled Not Defined with
    probability p_nd (otherwise a uniformly chosen defined value)."""
    nd = T.ND[ver]
    m = {}
    for k in T.ORDER[ver]:
        vals = T.VALUES[ver][k]
        if k in T.MANDATORY[ver]:
            m[k] = rng.choice(vals)
        elif rng.random() < p_opt:
            if rng.random() < p_nd:
                m[k] = nd
            else:
                m[k] = rng.choice([v for v in vals if v != nd])
    return m


def rand_prefix(rng, ver):
    return rng.choice(T.PREFIXES[ver])


def spell(prefix, m, order=None, rng=None):
    """order: None -> dict order; 'official'; 'reversed'; 'shuffle' (needs rng); or an
    explicit list of metric names."""
    ks = list(m)
    if order == "official":
        ks = T.official_order(_ver_of(prefix, m), ks)
    elif order == "reversed":
        ks.reverse()
    elif order == "shuffle":
        rng.shuffle(ks)
    elif isinstance(order, (list, tuple)):
        ks = list(order)
    return prefix + "/".join(k + ":" + m[k] for k in ks)


def _ver_of(prefix, m):
    if prefix.startswith("CVSS:3"):
        return "3"
    if prefix.startswith("CVSS:4"):
        return "4"
    return "2"


def rand_vector(rng, ver, p_opt=0.5, p_nd=0.25, shuffle=0.5):
    p = rand_prefix(rng, ver)
    m = rand_metrics(rng, ver, p_opt, p_nd)
    s = spell(p, m, "shuffle" if rng.random() < shuffle else None, rng)
    return p, m, s


def each_choice(ver):
    """Metric dicts (as written) such that every (metric, value) pair of the version
    occurs at least once (each-choice coverage), cycling the other metrics' values."""
    out = []
    width = max(len(v) for v in T.VALUES[ver].values())
    for i in range(width):
        m = {}
        for k in T.ORDER[ver]:
            vals = T.VALUES[ver][k]
            m[k] = vals[i % len(vals)]
        out.append(m)
    return out


def nd_variants(ver, m, rng, n_random=3):
    """Spellings of the same assignment that differ only in which Not Defined optional
    metrics are written explicitly: none, all, each one alone, random subsets."""
    nd = T.ND[ver]
    dfn = {k: v for k, v in m.items() if v != nd}
    free = [k for k in T.OPTIONAL[ver] if k not in dfn]
    out = [dict(dfn)]
    allnd = dict(dfn)
    for k in free:
        allnd[k] = nd
    out.append(allnd)
    for k in free:
        d = dict(dfn)
        d[k] = nd
        out.append(d)
    for _ in range(n_random):
        d = dict(dfn)
        for k in free:
            if rng.random() < 0.5:
                d[k] = nd
        out.append(d)
    return out


def orderings(m, rng, n_shuffle=4):
    """Field orders: as is, reversed, every rotation, each metric moved first / last,
    random shuffles."""
    ks = list(m)
    outs = [ks, ks[::-1]]
    for r in range(1, len(ks)):
        outs.append(ks[r:] + ks[:r])
    for k in ks:
        rest = [x for x in ks if x != k]
        outs.append([k] + rest)
        outs.append(rest + [k])
    for _ in range(n_shuffle):
        s = ks[:]
        rng.shuffle(s)
        outs.append(s)
    return outs


def blocks(ver):
    """The metric groups a vector is naturally written in (each in specification order)."""
    g = T.GROUPS[ver]
    if ver == "4":
        env = g["environmental"]
        return [list(T.MANDATORY[ver]), list(g["threat"]), env[:3], env[3:], list(g["supplemental"])]
    env = g["environmental"]
    cut = 2 if ver == "2" else 3
    return [list(T.MANDATORY[ver]), list(g["temporal"]), env[:cut], env[cut:]]


def block_orderings(ver, keys, rng=None, n=None):
    """Field orders that keep every group together and in specification order inside, but put the
    GROUPS in another order (all permutations, or n random ones): the orders other tools, older
    releases and other tables of the same project write."""
    import itertools
    bl = [[k for k in b if k in keys] for b in blocks(ver)]
    perms = list(itertools.permutations(range(len(bl))))
    if n is not None and rng is not None and n < len(perms):
        perms = rng.sample(perms, n)
    seen = set()
    for perm in perms:
        ks = [k for i in perm for k in bl[i]]
        if tuple(ks) not in seen:
            seen.add(tuple(ks))
            yield ks


def foreign_operands():
    """Values of other types to compare a CVSS object with: strings that ARE vectors of some version
    (complete, incomplete but well-formed, malformed), bytes, containers, numbers."""
    return [None, "x", "", 1, 0, 7.5, float("nan"), b"x", b"AV:N/AC:L/Au:N/C:P/I:P/A:P", (1,), [], {}, object(), object, True,
            "AV:N", "AV:N/AC:L", "AV:N/AC:L/Au:N/C:P/I:P", "CVSS:3.1/AV:N/AC:L", "CVSS:3.0/AV:N", "CVSS:3.1/", "CVSS:4.0/E:A",
            "CVSS:4.0/AV:N/AC:L/AT:N", "AV:N/AC:L/Au:N/C:P/I:P/A:P", "CVSS:3.1/AV:N/AC:L/PR:N/UI:N/S:U/C:H/I:H/A:H",
            "CVSS:3.0/AV:N/AC:L/PR:N/UI:N/S:U/C:H/I:H/A:H", "CVSS:4.0/AV:N/AC:L/AT:N/PR:N/UI:N/VC:H/VI:H/VA:H/SC:N/SI:N/SA:N",
            "CVSS:3.1/AV:N/AV:N", "AV:Z", "AV:N/", "/", ":", "7.5/AV:N/AC:L/Au:N/C:P/I:P/A:P", ("AV:N/AC:L/Au:N/C:P/I:P/A:P",)]


# -- hostile single-edit neighbourhood ---------------------------------------
ALPHABET = list("ABCDEFGHIJKLMNOPQRSTUVWXYZabcdefghijklmnopqrstuvwxyz0123456789:/.-_ \t\n\x00") + ["é", "\U0001f600"]


def char_mutants(s, alphabet=ALPHABET):
    """Complete single-edit neighbourhood: delete / replace / insert at each position."""
    n = len(s)
    for i in range(n):
        yield s[:i] + s[i + 1:]
    for i in range(n):
        c0 = s[i]
        for c in alphabet:
            if c != c0:
                yield s[:i] + c + s[i + 1:]
    for i in range(n + 1):
        for c in alphabet:
            yield s[:i] + c + s[i:]


OTHER_PREFIXES = ["CVSS:3.2/", "CVSS:3/", "CVSS:3.0", "CVSS:3.1", "cvss:3.1/", " CVSS:3.1/", "CVSS:3.1/ ", "CVSS:3.10/",
                  "CVSS:4.0/", "CVSS:4.1/", "CVSS:4/", "CVSS:2.0/", "CVSS:3.0/", "CVSS:3.1/", "", "/", "CVSS:", "CVSS:3.1//",
                  "CVSS:3.1/CVSS:3.1/", "CVSS:4.0/CVSS:4.0/", "CVSS:3.١/", "CVSS:３.1/", "CVSS:3.1\n/"]


def field_mutants(ver, prefix, fields, rng):
    """Field-level operations on an accepted vector (fields: list of (m, v))."""
    fs = [m + ":" + v for m, v in fields]
    join = lambda xs: prefix + "/".join(xs)
    n = len(fs)
    for i in range(n):
        yield "drop", join(fs[:i] + fs[i + 1:])
        yield "dup-same", join(fs[:i + 1] + [fs[i]] + fs[i + 1:])
        yield "dup-same-end", join(fs + [fs[i]])
        m, v = fields[i]
        for alt in T.VALUES[ver][m]:
            if alt != v:
                yield "dup-other", join(fs + [m + ":" + alt])
                # the same metric again in another letter case (where letter case is tolerated, the two spellings are the
                # same metric and the duplicate rule must not depend on which comes first)
                yield "dup-other-case", join(fs + [m.lower() + ":" + alt])
                yield "dup-other-case-front", join([m.swapcase() + ":" + alt] + fs)
                yield "dup-other-front", join([m + ":" + alt] + fs)
                yield "value", join(fs[:i] + [m + ":" + alt] + fs[i + 1:])
        yield "empty-field", join(fs[:i] + [""] + fs[i:])
        yield "empty-value", join(fs[:i] + [m + ":"] + fs[i + 1:])
        yield "empty-metric", join(fs[:i] + [":" + v] + fs[i + 1:])
        yield "no-colon", join(fs[:i] + [m + v] + fs[i + 1:])
        yield "two-colons", join(fs[:i] + [m + "::" + v] + fs[i + 1:])
        yield "colon-tail", join(fs[:i] + [m + ":" + v + ":"] + fs[i + 1:])
        yield "lower", join(fs[:i] + [fs[i].lower()] + fs[i + 1:])
        yield "upper", join(fs[:i] + [fs[i].upper()] + fs[i + 1:])
        yield "pad", join(fs[:i] + [" " + fs[i]] + fs[i + 1:])
        yield "pad", join(fs[:i] + [fs[i] + " "] + fs[i + 1:])
        yield "pad", join(fs[:i] + [m + " :" + v] + fs[i + 1:])
        yield "pad", join(fs[:i] + [m + ": " + v] + fs[i + 1:])
        if i + 1 < n:
            sw = fs[:]
            sw[i], sw[i + 1] = sw[i + 1], sw[i]
            yield "swap", join(sw)
            (m2, v2) = fields[i + 1]
            yield "swap-values", join(fs[:i] + [m + ":" + v2, m2 + ":" + v] + fs[i + 2:])
    # transplant a field of another version / an unknown metric
    for over in T.VERSIONS:
        if over == ver:
            continue
        for m2 in T.ORDER[over]:
            for v2 in T.VALUES[over][m2][:2]:
                yield "transplant", join(fs + [m2 + ":" + v2])
    for junk in ("XX:Y", "AV", "AV:", ":", "::", "A:V:N", "M:X", "MX:X", "E:ND", "RC:X", "U:clear", "U:CLEAR", "u:Red",
                 "Au:n", "AU:N", "au:N", "S:S", "MSI:SS", "MAV:", "АV:N", "AV:Ｎ"):
        yield "junk-field", join(fs + [junk])
        yield "junk-field", join([junk] + fs)
    yield "trailing-slash", join(fs) + "/"
    yield "leading-slash", prefix + "/" + "/".join(fs)
    yield "double-slash", prefix + "//".join(fs)
    yield "leading-slash0", "/" + join(fs)
    yield "only-prefix", prefix
    yield "only-prefix-noslash", prefix[:-1] if prefix else ""
    yield "newline-end", join(fs) + "\n"
    yield "newline-start", "\n" + join(fs)
    yield "space-end", join(fs) + " "
    yield "space-start", " " + join(fs)
    yield "tab-end", join(fs) + "\t"
    yield "nul-end", join(fs) + "\x00"
    yield "lower-all", join(fs).lower()
    yield "upper-all", join(fs).upper()
    yield "backslash", join(fs).replace("/", "\\")
    yield "semicolon", join(fs).replace("/", ";")
    yield "equals", join(fs).replace(":", "=")
    yield "parenthesised", "(" + join(fs) + ")"
    yield "doubled", join(fs) + "/" + "/".join(fs)
    yield "doubled-with-prefix", join(fs) + "/" + join(fs)
    for op in OTHER_PREFIXES:
        yield "prefix-variant", op + "/".join(fs)
    mand = [f for f, (m, v) in zip(fs, fields) if m in T.MANDATORY[ver]]
    opt = [f for f, (m, v) in zip(fs, fields) if m not in T.MANDATORY[ver]]
    yield "only-mandatory", join(mand)
    if opt:
        yield "only-optional", join(opt)
    for k in range(1, len(mand)):
        yield "mandatory-prefix", join(mand[:k])
        yield "mandatory-suffix", join(mand[k:] + opt)


def junk_strings(rng, n):
    pool = ["", "/", ":", "CVSS", "CVSS:", "CVSS:3.1", "CVSS:3.1/", "CVSS:4.0/", "AV", "AV:N", "AV:N/", "/AV:N", "\x00", " ",
            "\n", "None", "0", "7.5", "\ud800", "\U0001f600" * 3, "a" * 50, "AV:N/AC:L", "CVSS:3.1/AV:N/AC:L/PR:N/UI:N/S:U/C:H/I:H",
            "AV:N/AC:L/Au:N/C:P/I:P", "CVSS:4.0/AV:N/AC:L/AT:N/PR:N/UI:N/VC:H/VI:H/VA:H/SC:H/SI:H"]
    for s in pool:
        yield s
    toks = ["AV", "AC", "Au", "PR", "UI", "S", "C", "I", "A", "E", "RL", "RC", "CR", "MAV", "MS", "AT", "VC", "SC", "MSI",
            "U", ":", "/", "N", "L", "H", "X", "ND", "P", "Clear", "CVSS:3.1", "CVSS:4.0", "CVSS:3.0", " ", "\t", "3", ".",
            "é", "\x00", "::", "//"]
    for _ in range(n):
        k = rng.randint(1, 14)
        yield "".join(rng.choice(toks) for _ in range(k))


# -- exhaustive quotient iterators -------------------------------------------
def v3_base_assignments():
    for combo in itertools.product("NALP", "LH", "NLH", "NR", "UC", "HLN", "HLN", "HLN"):
        yield dict(zip(["AV", "AC", "PR", "UI", "S", "C", "I", "A"], combo))


V3_TEMPORAL_SPELLINGS = list(itertools.product("XHFPU", "XUWTO", "XCRU"))  # 100
V3_TEMPORAL_EFFECTIVE = list(itertools.product("HFPU", "UWTO", "CRU"))  # 48
V3_REQ = list(itertools.product("HML", repeat=3))  # 27

V2_TEMPORAL = [()] + list(itertools.product(["U", "POC", "F", "H"], ["OF", "TF", "W", "U"], ["UC", "UR", "C"]))  # 49
V2_ENV = [()] + list(itertools.product(["N", "L", "LM", "MH", "H"], ["N", "L", "M", "H"], "LMH", "LMH", "LMH"))  # 541

V4_DIMS = [("AV", "NALP"), ("PR", "NLH"), ("UI", "NPA"), ("AC", "LH"), ("AT", "NP"), ("VC", "HLN"), ("VI", "HLN"),
           ("VA", "HLN"), ("SC", "HLN"), ("SI", "SHLN"), ("SA", "SHLN"), ("CR", "HML"), ("IR", "HML"), ("AR", "HML"),
           ("E", "APU")]


def v4_written_from_effective(vals):
    """A concrete v4 spelling (metrics as written, official order) of an effective
    assignment: 'S' for SI/SA is expressed through MSI/MSA (base value N)."""
    m = {}
    for k in ("AV", "AC", "AT", "PR", "UI", "VC", "VI", "VA", "SC"):
        m[k] = vals[k]
    mod = {}
    for k in ("SI", "SA"):
        if vals[k] == "S":
            m[k] = "N"
            mod["M" + k] = "S"
        else:
            m[k] = vals[k]
    m["E"] = vals["E"]
    for k in ("CR", "IR", "AR"):
        m[k] = vals[k]
    m.update(mod)
    return m
